"""C08 — transaction-local semantics: read-your-writes, last write wins, clean rollback, single writer."""
from .. import analysis as A
from .. import roles as R
from .. import locks as L

META = {
    "technique": "dominance / control-dependence + origin terms + call-graph non-reachability + drop-order in MIR",
    "explanation": (
        "Decides the structure transaction-local semantics rest on: (1) point reads consult the transaction's ephemeral "
        "memtable first and reach the tree only on the miss edge; scans pass the memtable of the SAME keyspace together "
        "with the private seqno as overlay; (2) the private seqno starts at a constant >= 2^63 and every write does exactly "
        "one `seqno += 1` after inserting at the current value; (3) no transaction method other than commit can reach a "
        "journal append, a tree apply or publish, rollback reaches nothing, and neither transaction type has a Drop that "
        "commits; (4) commit pushes an item only when its key differs from the previously pushed key of that keyspace and "
        "remembers the pushed key; (5) the single-writer mutex is taken before the snapshot is opened, its guard is stored "
        "in the transaction and dropped only after the inner commit; every single-writer helper goes through write_tx; "
        "(6) fetch_update returns the value read before f, update_fetch returns f's output, take = fetch_update(|_| None), "
        "through all wrappers."),
    "not_decided": [
        "merged scan results (overlay + tree) as values; lost-update freedom as an execution property",
        "that lsm-tree's Memtable orders (key, seqno desc) as commit's dedupe assumes",
    ],
    "assumptions": ["Memtable::iter yields entries grouped by user key, newest first"],
}

BT = "tx::write_tx::BaseTransaction"
BT_R = "<tx::write_tx::BaseTransaction as readable::Readable>::"
SW = "tx::single_writer::write_tx::WriteTransaction::<'tx>"


def commit_rules(ctx, rule):
    """BaseTransaction::commit turns the private buffers into the batch: newest write per key, once, for every keyspace
    (shared with C01 — committed transactions must match the reference map — and C03)"""
    F = ctx.F
    cg = ctx.cg
    # ---- R-C08.4 commit keeps the newest write per key, once
    cm = ctx.fn(BT + "::commit", rule)
    if cm:
        og = ctx.og(cm)
        push = [b for b, t in cm.calls() if A.cname(t).endswith("Vec::<T, A>::push")]
        eqs = []
        for b, t in cm.calls():
            n = A.cname(t)
            if (t.get("callee") or "").startswith("std::cmp::PartialEq::") and len(t["args"]) == 2:
                a0, a1 = og.of_operand(t["args"][0]), og.of_operand(t["args"][1])
                uk = any(x.k == "field" and x.a[1] == "user_key" for x in A.walk(a0)) or any(x.k == "field" and x.a[1] == "user_key" for x in A.walk(a1))
                if uk:
                    eqs.append((b, n.endswith("::ne")))
        ok = False
        detail = "no equality test between the entry's user_key and the previously pushed key"
        if eqs and push:
            b, is_ne = eqs[0]
            sw = A.switch_after_call(cm, b)
            if sw is not None:
                zero, true_t = A.bool_edges(cm, sw)
                equal_edge = zero if is_ne else true_t
                # loop head: the Memtable iterator's next
                heads = [bb for bb, tt in cm.calls() if A.cname(tt).endswith("::next") and A.in_cycle(cm, bb)]
                r = A.reach(cm, equal_edge, avoid=heads)
                ok = not any(p in r for p in push)
                detail = "an entry whose key equals the previously pushed key is %s" % ("skipped (only the newest write per key is committed)" if ok else "pushed again: older writes of the same key would be committed too")
        ctx.ob(rule, cm, "dedupe-per-key", ok, detail)
        # prev_key remembered after push
        okp = False
        for b, blk in enumerate(cm.blocks):
            for st in blk["s"]:
                if not st["p"]["p"] and cm.local_name(st["p"]["l"]) and st["rv"]["k"] in ("use", "agg"):
                    term = og.of_rvalue(st["rv"])
                    if term.k == "agg" and term.a[0].endswith("Option::Some") and any(x.k == "field" and x.a[1] == "user_key" for x in A.walk(term)):
                        if push and any(b in A.reach_after(cm, p) for p in push):
                            okp = True
        ctx.ob(rule, cm, "remembers-pushed-key", okp, "prev_key := Some(item.key.user_key) after each push" if okp else "the pushed key is not remembered for the next comparison")
        # the remembered key belongs to ONE keyspace's buffer: it is forgotten when the commit moves on to the next keyspace
        # (or the comparison also involves the keyspace). Otherwise the first write to key k in the next keyspace is taken
        # for an older version of the last key of the previous keyspace and silently dropped from the transaction.
        mem = set()
        for b, blk in enumerate(cm.blocks):
            for st in blk["s"]:
                if not st["p"]["p"] and st["rv"]["k"] in ("use", "agg"):
                    term = og.of_rvalue(st["rv"])
                    if term.k == "agg" and term.a[0].endswith("Option::Some") and any(x.k == "field" and x.a[1] == "user_key" for x in A.walk(term)):
                        mem.add(st["p"]["l"])
        outer_heads = [bb for bb, tt in cm.calls() if A.cname(tt).endswith("::next") and A.in_cycle(cm, bb) and "hash_map::IntoIter" in (tt.get("full") or "")]
        inits = [b for b, blk in enumerate(cm.blocks) if not blk["cleanup"] for st in blk["s"]
                 if not st["p"]["p"] and st["p"]["l"] in mem and st["rv"]["k"] == "agg" and st["rv"].get("variant") == "None"]
        okr = False
        detail = "no per-key dedupe state found"
        if mem and outer_heads and inits:
            per_ks = [b for b in inits if A.in_cycle(cm, b) and outer_heads[0] in A.reach_after(cm, b)]
            cmp_has_ks = False
            for b, t in cm.calls():
                if (t.get("callee") or "").startswith("std::cmp::PartialEq::") and len(t["args"]) == 2:
                    ts = [og.of_operand(a) for a in t["args"]]
                    if any("keyspace::Keyspace" in cm.local_ty(A.op_place(a)["l"]) for a in t["args"] if A.op_place(a) is not None):
                        cmp_has_ks = True
            okr = bool(per_ks) or cmp_has_ks
            detail = "the remembered key is reset to None for every keyspace's buffer" if per_ks else (
                "the dedupe comparison also compares the keyspace" if cmp_has_ks else
                "the remembered key survives from one keyspace's buffer to the next (initialised once, before the per-keyspace loop): when the last key written in one keyspace equals the first key written in the next, that write is dropped from the commit")
        ctx.ob(rule, cm, "dedupe-state-reset-per-keyspace", okr, detail)
        # pushed item = (this keyspace, this key, this value, this value type)
        for b, t in cm.calls():
            if A.cname(t).startswith("batch::item::Item::new"):
                args = [og.of_operand(a) for a in t["args"]]
                okf = any(x.k == "field" and x.a[1] == "user_key" for x in A.walk(args[1])) and any(x.k == "field" and x.a[1] == "value" for x in A.walk(args[2])) and any(x.k == "field" and x.a[1] == "value_type" for x in A.walk(args[3]))
                ctx.ob(rule, cm, "pushes-the-entry-unchanged", okf, "Item::new(keyspace, item.key.user_key, item.value, item.key.value_type)" if okf else "commit pushes something else than the buffered entry: %s" % [A.tstr(a)[:40] for a in args], cm.loc(b))



def run(ctx):
    F = ctx.F
    cg = ctx.cg
    # ---- R-C08.1 own writes first
    for m in ("get", "contains_key", "size_of"):
        fn = ctx.fn(BT_R + m, "R-C08.1")
        if not fn:
            continue
        mg = R.call_blocks(fn, ("lsm_tree::Memtable::get",))
        tr = [b for b, t in fn.calls() if "AbstractTree" in A.cname(t) and A.cname(t).endswith("::" + m)]
        if not mg or not tr:
            ctx.ob("R-C08.1", fn, "memtable-then-tree", False, "point read lacks the ephemeral memtable lookup (%d) or the tree read (%d)" % (len(mg), len(tr)))
            continue
        og = ctx.og(fn)
        recv = og.of_operand(fn.term(mg[0])["args"][0])
        same_ks = any(x.k == "call" and x.a[0].endswith("HashMap::<K, V, S, A>::get") and A.access_path(x.a[1][0]) == ("P1", "memtables") and
                      any(y.k == "param" and y.a[0] == 2 for y in A.walk(x.a[1][1])) for x in A.walk(recv))
        key = og.of_operand(fn.term(mg[0])["args"][1])
        same_key = any(y.k == "param" and y.a[0] == 3 for y in A.walk(key))
        ctx.ob("R-C08.1", fn, "looks-up-own-keyspace-and-key", same_ks and same_key, "memtables.get(keyspace).get(key) with the method's own keyspace and key" if same_ks and same_key else "ephemeral lookup uses %s / %s" % (A.tstr(recv)[:80], A.tstr(key)[:40]))
        # hit edge must not reach the tree read
        sw = A.switch_after_call(fn, mg[0])
        ok = False
        detail = "result of the ephemeral lookup is not branched on"
        if sw is not None:
            _, labels = A.switch_info(fn, sw)
            hit = [tg for tg, ns in labels.items() if "Some" in ns]
            reach_hit = A.reach(fn, hit)
            ok = bool(hit) and not any(t in reach_hit for t in tr)
            detail = "a hit in the transaction's own writes %s" % ("returns without consulting the tree" if ok else "still falls through to the snapshot read (own write ignored)")
        ctx.ob("R-C08.1", fn, "own-write-shadows-snapshot", ok, detail)
        # lookup happens on every path to the tree read unless the keyspace has no memtable
        dom = any(t in A.reach_after(fn, mg[0]) for t in tr)
        ctx.ob("R-C08.1", fn, "lookup-before-tree-read", dom, "memtable lookup precedes the tree read", nontrivial=False)
    for m in ("iter", "range", "prefix"):
        fn = ctx.fn(BT_R + m, "R-C08.1")
        if not fn:
            continue
        og = ctx.og(fn)
        tr = [(b, t) for b, t in fn.calls() if "AbstractTree" in A.cname(t) and A.cname(t).endswith("::" + m)]
        ok = False
        detail = "no tree scan"
        for b, t in tr:
            ov = og.of_operand(t["args"][-1])
            has_mt = any(x.k == "call" and x.a[0].endswith("HashMap::<K, V, S, A>::get") and A.access_path(x.a[1][0]) == ("P1", "memtables") and
                         any(y.k == "param" and y.a[0] == 2 for y in A.walk(x.a[1][1])) for x in A.walk(ov))
            has_seq = False
            for x in A.walk(ov):
                if x.k == "closure":
                    cf = F.fns.get(x.a[0])
                    if cf:
                        cog = A.Origins(cf)
                        rt = cog.of_local(0)
                        has_seq = has_seq or any(y.k == "field" and "seqno" in y.a[1] for y in A.walk(rt))
            ok = has_mt and has_seq
            detail = "scan overlay := %s" % A.tstr(ov)[:140] + ("" if ok else " — the transaction's own writes (memtable of this keyspace, private seqno) are not layered over the scan")
        ctx.ob("R-C08.1", fn, "scan-overlays-own-writes", ok, detail)

    # ---- R-C08.2 private seqno
    nf = ctx.fn(BT + "::new", "R-C08.2")
    if nf:
        ok = False
        val = None
        for blk in nf.blocks:
            for st in blk["s"]:
                rv = st["rv"]
                if rv["k"] == "agg" and rv.get("adt") == BT and "seqno" in rv["fields"]:
                    term = ctx.og(nf).of_operand(rv["ops"][rv["fields"].index("seqno")])
                    if term.k == "const" and term.a[0] == "int":
                        val = term.a[1]
                        ok = val >= 2 ** 63
        ctx.ob("R-C08.2", nf, "private-seqno-above-2^63", ok, "transaction-local seqno starts at %s (>= 2^63: above every committed seqno, so own writes win in the overlay)" % val if ok else "transaction-local seqno starts at %s, which can collide with committed sequence numbers" % val)
    for m, ctor in (("insert", "from_components"), ("remove", "new_tombstone"), ("remove_weak", "new_weak_tombstone")):
        fn = ctx.fn(BT + "::" + m, "R-C08.2")
        if not fn:
            continue
        og = ctx.og(fn)
        incs = []
        for b, i, st in A.field_assigns(fn, "seqno"):
            term = og.of_rvalue(st["rv"])
            t2 = term
            while t2.k == "field" and t2.a[1] == "0":
                t2 = t2.a[0]
            if t2.k == "bin" and t2.a[0].startswith("Add") and A.access_path(t2.a[1]) == ("P1", "seqno") and t2.a[2].k == "const" and t2.a[2].a == ("int", 1):
                incs.append(b)
        ins = [b for b, t in fn.calls() if A.cname(t) == "lsm_tree::Memtable::insert"]
        mk = [b for b, t in fn.calls() if A.cname(t).startswith("lsm_tree::InternalValue::" + ctor)]
        ok = len(incs) == 1 and len(ins) == 1 and not A.in_cycle(fn, incs[0]) and incs[0] in A.reach_after(fn, ins[0]) | {ins[0]} and A.dominates(fn, ins[0], incs[0])
        ctx.ob("R-C08.2", fn, "one-increment-after-insert", ok, "exactly one `seqno += 1`, after the memtable insert" if ok else "private seqno is bumped %d time(s) / not after the insert: two writes could share a seqno (last-write-wins breaks)" % len(incs))
        okv = False
        if mk:
            t = fn.term(mk[0])
            okv = any(A.access_path(og.of_operand(a)) == ("P1", "seqno") for a in t["args"])
        ctx.ob("R-C08.2", fn, "written-at-private-seqno", okv, "entry is created at self.seqno with %s" % ctor if okv else "entry is not created at the transaction's current private seqno")
        # keyspace of the memtable = the keyspace parameter
        ent = [b for b, t in fn.calls() if A.cname(t).endswith("HashMap::<K, V, S, A>::entry")]
        okk = False
        if ent:
            k = og.of_operand(fn.term(ent[0])["args"][1])
            okk = any(y.k == "param" and y.a[0] == 2 for y in A.walk(k))
        ctx.ob("R-C08.2", fn, "buffers-under-own-keyspace", okk, "write is buffered in memtables[keyspace parameter]" if okk else "write is buffered under a different keyspace")

    # ---- R-C08.3 nothing leaks before commit
    leak_targets = set(R.APPEND) | set(R.APPLY) | {R.PUBLISH, "batch::WriteBatch::commit", R.GET_WRITER}
    non_commit = []
    for fid, fn in F.fns.items():
        if fn.kind == "closure":
            continue
        st = fn.d.get("self_ty") or ""
        in_tx = fid.startswith(BT + "::") or fid.startswith(BT_R) or fid.startswith(SW + "::") or fid.startswith("tx::optimistic::write_tx::WriteTransaction::") or \
            (fn.d.get("trait") == "readable::Readable" and ("WriteTransaction" in st))
        if not in_tx:
            continue
        name = fn.d.get("name")
        if name == "commit":
            continue
        non_commit.append(fn)
        chain = cg.call_chain(fid, leak_targets)
        ctx.ob("R-C08.3", fn, "no-effect-before-commit", chain is None,
               "cannot reach a journal append / tree apply / publish" if chain is None else "a non-commit transaction method reaches a database write: %s" % " -> ".join(chain), nontrivial=chain is not None or name in ("insert", "remove", "remove_weak", "take", "fetch_update", "update_fetch", "rollback"))
    ctx.floor("R-C08.3", "non-commit transaction methods", non_commit, 40)
    for imp in F.impls:
        if imp.get("trait") == "std::ops::Drop" and ("BaseTransaction" in imp["self_ty"] or "WriteTransaction" in imp["self_ty"]):
            for it in imp["items"]:
                chain = cg.call_chain(it, leak_targets | {BT + "::commit"})
                ctx.ob("R-C08.3", it, "drop-does-not-commit", chain is None, "Drop of a transaction %s" % ("has no database effect" if chain is None else "commits/writes: " + " -> ".join(chain)))

    commit_rules(ctx, "R-C08.4")

    # ---- R-C08.5 single writer
    wt = ctx.fn("tx::single_writer::TxDatabase::write_tx", "R-C08.5")
    if wt:
        lm = L.LockModel(ctx)
        gs = [g for g in lm.guards(wt) if g.cls == "single_writer_lock"]
        ob = R.call_blocks(wt, (R.OPEN_VIEW,))
        ok = bool(gs) and bool(ob) and A.dominates(wt, gs[0].site, ob[0]) and A.must_held_at(wt, gs[0], ob[0])[0]
        ctx.ob("R-C08.5", wt, "lock-before-snapshot", ok, "single-writer mutex is held when the snapshot is opened" if ok else "the snapshot is opened before/without the single-writer mutex: two writers could read the same state (lost update)")
        okm = False
        for b, t in wt.calls():
            if A.cname(t) == SW + "::new" and gs:
                a = t["args"][2]
                okm = "move" in a and a["move"]["l"] in gs[0].aliases
        ctx.ob("R-C08.5", wt, "guard-moved-into-transaction", okm, "the mutex guard is moved into the WriteTransaction" if okm else "the mutex guard is not handed to the transaction (released at the end of write_tx)")
    adt = F.adts.get("tx::single_writer::write_tx::WriteTransaction")
    has_guard = bool(adt) and any("MutexGuard<" in f["ty"] for v in adt["variants"] for f in v["fields"])
    ctx.ob("R-C08.5", "tx::single_writer::write_tx::WriteTransaction", "owns-mutex-guard", has_guard, "single-writer WriteTransaction has a MutexGuard field", nontrivial=False)
    nw = ctx.fn(SW + "::new", "R-C08.5")
    if nw:
        ok = False
        for blk in nw.blocks:
            for st in blk["s"]:
                rv = st["rv"]
                if rv["k"] == "agg" and rv.get("adt") == "tx::single_writer::write_tx::WriteTransaction":
                    for n, o in zip(rv["fields"], rv["ops"]):
                        if "guard" in n:
                            term = ctx.og(nw).of_operand(o)
                            ok = term.k == "param" and term.a[0] == 3
        ctx.ob("R-C08.5", nw, "stores-guard-parameter", ok, "constructor keeps the guard it receives" if ok else "constructor drops the guard")
    sc = ctx.fn(SW + "::commit", "R-C08.5")
    if sc:
        cb = R.call_blocks(sc, (BT + "::commit",))
        drops = [b for b, blk in enumerate(sc.blocks) if not blk["cleanup"] and blk["t"]["k"] == "drop" and "MutexGuard" in blk["t"]["ty"]]
        moved_out = [b for b, t in sc.calls() if A.cname(t).startswith("std::mem::drop") and "MutexGuard" in (t.get("full") or "")]
        ok = bool(cb) and bool(drops + moved_out) and all(A.dominates(sc, cb[0], d) for d in drops + moved_out)
        ctx.ob("R-C08.5", sc, "guard-released-after-commit", ok, "the single-writer guard is dropped only after the inner commit returned" if ok else "the single-writer guard is released before the commit is applied")
    KSH = "tx::single_writer::keyspace::SingleWriterTxKeyspace"
    for m in ("insert", "remove", "remove_weak", "take", "fetch_update", "update_fetch"):
        fn = ctx.fn(KSH + "::" + m, "R-C08.5")
        if fn:
            ok = cg.reaches(fn.id, {"tx::single_writer::TxDatabase::write_tx"}) and cg.call_chain(fn.id, {"keyspace::Keyspace::insert", "keyspace::Keyspace::remove", "keyspace::Keyspace::remove_weak"}) is None
            ctx.ob("R-C08.5", fn, "helper-serialised-by-write_tx", ok, "helper runs inside write_tx() (serialised with other writers)" if ok else "helper writes without taking the single-writer mutex")

    # ---- R-C08.6 documented return values
    for m, want in (("fetch_update", "prev"), ("update_fetch", "new")):
        fn = ctx.fn(BT + "::" + m, "R-C08.6")
        if not fn:
            continue
        og = ctx.og(fn)
        ret = og.of_local(0)
        oks = [x for x in A.walk(ret) if x.k == "agg" and x.a[0].endswith("Result::Ok")]
        ok = False
        detail = "no Ok(..) return"
        for okt in oks:
            payload = dict(okt.a[1]).get("0")
            if payload is None:
                continue
            roots = [A.value_root(x) for x in A.alternatives(payload)]
            from_get = all(x.k == "call" and x.a[0] == BT_R + "get" for x in roots)
            from_f = all(x.k == "call" and ("call_once" in x.a[0] or x.a[0] == "<indirect>") for x in roots)
            ok = (want == "prev" and from_get) or (want == "new" and from_f)
            detail = "returns Ok(%s)" % A.tstr(payload)[:120] + ("" if ok else " — documented to return the %s value" % ("previous" if want == "prev" else "updated"))
        ctx.ob("R-C08.6", fn, "returns-%s-value" % want, ok, detail)
        # the read it is based on is the transaction's own view of the same key
        g = [b for b, t in fn.calls() if A.cname(t) == BT_R + "get"]
        okr = bool(g) and any(y.k == "param" and y.a[0] == 2 for y in A.walk(og.of_operand(fn.term(g[0])["args"][1]))) if g else False
        ctx.ob("R-C08.6", fn, "reads-through-own-view", okr, "previous value read via self.get(keyspace, key)" if okr else "previous value is not read through the transaction's own view")
        # the EFFECT: a new value is inserted unless it equals the previous one; None removes an existing key
        ins = [b for b, t in fn.calls() if A.cname(t) == BT + "::insert"]
        rem = [b for b, t in fn.calls() if A.cname(t) == BT + "::remove"]
        cmpb = [b for b, t in fn.calls() if (t.get("callee") or A.cname(t)).endswith(("PartialEq::ne", "PartialEq::eq")) or A.cname(t).endswith(("::ne", "::eq"))]
        isb = [b for b, t in fn.calls() if A.cname(t).endswith("Option::<T>::is_some") or A.cname(t).endswith("Option::<T>::is_none")]
        oke = False
        detaile = "%s lacks the insert / remove of the computed value" % m
        if ins and rem:
            oke = True
            detaile = "Some(v) != prev -> insert(key, v); None and prev present -> remove(key)"
            for c in cmpb:
                sw = A.switch_after_call(fn, c)
                if sw is None:
                    continue
                zero, true_t = A.bool_edges(fn, sw)
                is_ne = (fn.term(c).get("callee") or A.cname(fn.term(c))).endswith("ne")
                differ, same = (true_t, zero) if is_ne else (zero, true_t)
                if not all(any(i in A.reach(fn, [e]) for i in ins) for e in differ) or any(i in A.reach(fn, list(same)) for i in ins):
                    oke = False
                    detaile = "the value computed by the closure is written only when it EQUALS the previous value (or not on every differing path): an update is acknowledged and dropped"
            for c in isb:
                sw = A.switch_after_call(fn, c)
                if sw is None:
                    continue
                zero, true_t = A.bool_edges(fn, sw)
                neg = A.cname(fn.term(c)).endswith("is_none")
                present, absent = (zero, true_t) if neg else (true_t, zero)
                if not all(any(r_ in A.reach(fn, [e]) for r_ in rem) for e in present) or any(r_ in A.reach(fn, list(absent)) for r_ in rem):
                    oke = False
                    detaile = "a closure answer of None removes the key only when it was ABSENT (or not whenever it was present): the removal is acknowledged and dropped"
            # operands: insert(keyspace, key, value-from-f), remove(keyspace, key)
            ti = og.of_operand(fn.term(ins[0])["args"][3]) if len(fn.term(ins[0])["args"]) > 3 else None
            if ti is None or not any(x.k == "call" and ("call_once" in x.a[0] or x.a[0] == "<indirect>") for x in A.walk(ti)):
                oke = False
                detaile = "what is inserted is not the closure's output"
        ctx.ob("R-C08.6", fn, "writes-what-the-closure-returned", oke, detaile)
    tk = ctx.fn(BT + "::take", "R-C08.6")
    if tk:
        ok = False
        for b, t in tk.calls():
            if A.cname(t).startswith(BT + "::fetch_update"):
                cl = A.closure_of_operand(tk, t["args"][3])
                cf = F.fns.get(cl) if cl else None
                if cf:
                    r = A.Origins(cf).of_local(0)
                    ok = r.k == "agg" and r.a[0].endswith("Option::None")
        ctx.ob("R-C08.6", tk, "take-is-fetch_update-none", ok, "take = fetch_update(|_| None)" if ok else "take is not fetch_update with a closure returning None")
    for base in (SW, "tx::optimistic::write_tx::WriteTransaction"):
        for m in ("fetch_update", "update_fetch"):
            fn = ctx.fn(base + "::" + m, "R-C08.6")
            if not fn:
                continue
            og = ctx.og(fn)
            ret = og.of_local(0)
            inner = [x for x in A.walk(ret) if x.k == "call" and x.a[0].startswith(BT + "::" + m)]
            wrong = [x for x in A.walk(ret) if x.k == "call" and x.a[0].startswith(BT + "::") and not x.a[0].startswith(BT + "::" + m)]
            ctx.ob("R-C08.6", fn, "wrapper-returns-inner-result", bool(inner) and not wrong, "returns the result of BaseTransaction::%s" % m if inner and not wrong else "wrapper returns %s" % A.tstr(ret)[:100])


    # ---- R-C08.7 "commit applies exactly the final write per key all at once": nothing may raise the visible counter past a
    # commit that is still applying its items (shared with C06: R-C06.6 — same defect, same seven call sites)
    from . import C06
    C06.version_change_rules(ctx, "R-C08.7")

    # ---- R-C08.4 (cont.) which of its writes a transaction commits depends on the transaction alone: the commit loop never
    # reads the tree (or the transaction's own view) to decide whether a final write — a tombstone, say — "is needed":
    # what the tree held at the snapshot instant says nothing about what it holds when the commit lands
    bc = ctx.fn(BT + "::commit", "R-C08.4")
    if bc:
        from . import C05 as _C05
        reads = [(b, A.cname(t)) for b, t in bc.calls() if (("AbstractTree" in A.cname(t) and A.cname(t).rsplit("::", 1)[-1] in _C05.TREE_READS)
                 or A.cname(t).startswith(BT_R) or A.cname(t) in (BT + "::get", BT + "::contains_key"))]
        ctx.ob("R-C08.4", bc, "commit-does-not-consult-the-tree", not reads,
               "BaseTransaction::commit builds its batch from the transaction's memtables only" if not reads else
               "BaseTransaction::commit reads the tree (%s) while building the batch: a final write is committed or dropped depending on what the SNAPSHOT held — another transaction may have committed the key since, and the dropped write (a remove) never happens" % reads[0][1],
               bc.loc(reads[0][0]) if reads else "")

    # ---- R-C08.10 write-side forwarding table
    write_forwarding(ctx, "R-C08.10")

    # ---- cross-cutting disciplines (rules/discipline.py)
    from .. import discipline as D
    # a failed commit is never acknowledged
    D.error_discipline(ctx, "R-C08.11", scope=lambda f: f.startswith(("tx::", "<tx::", "batch::")))
    # commit applies every final write
    D.loops_visit_all(ctx, "R-C08.12", only=("tx::write_tx::BaseTransaction::commit", "batch::WriteBatch::commit"))

    # ---- borrowed obligations (mechanisms owned by other properties that this property's verdict also rests on)
    # every tx-keyspace helper commits a one-item batch: the batch's "nothing to do" answer must be for item-less batches only
    ctx.borrow("C02", ["R-C02.19"], "R-C08.14")
    # commit applies all at once: the batch is applied under the keyspaces lock
    ctx.borrow("C06", ["R-C06.11"], "R-C08.13")
    # commit applies all at once: no exit between the first applied item and the publish
    ctx.borrow("C03", ["R-C03.10"], "R-C08.8")
    # write-ahead order of the batch commit every transaction commit goes through
    ctx.borrow("C02", ["R-C02.1"], "R-C08.9", only_instances=["batch::WriteBatch::commit", "publish", "apply"])



WRITE_OPS = ("insert", "remove", "remove_weak", "fetch_update", "update_fetch", "take")
WRITE_LAYERS = ("tx::optimistic::keyspace::OptimisticTxKeyspace::", "tx::single_writer::keyspace::SingleWriterTxKeyspace::",
                "tx::optimistic::write_tx::WriteTransaction::", "tx::single_writer::write_tx::WriteTransaction::<'tx>::")


def write_forwarding(ctx, rule):
    """the write side of the forwarding table (R-C01.2 is the read side): every write method of the transaction wrappers and
    every single-operation write helper of the tx keyspaces hands its key / value / closure to the like-named method of the
    layer below on every non-error path; the helpers then commit the transaction they opened and look at the result."""
    F = ctx.F
    n = 0
    for fid, fn in sorted(F.fns.items()):
        if fn.kind == "closure" or not fid.startswith(WRITE_LAYERS):
            continue
        op = fid.rsplit("::", 1)[-1]
        if op not in WRITE_OPS:
            continue
        n += 1
        og = ctx.og(fn)
        want = (op,) if op != "take" else ("take", "fetch_update")
        fw = [(b, t) for b, t in fn.calls() if A.cname(t).rsplit("::", 1)[-1] in want and A.cname(t) != fid and
              ("Transaction" in A.cname(t) or "TxKeyspace" in A.cname(t))]
        errs = list(A.error_starts(fn))
        ok = bool(fw)
        detail = "%s never calls the like-named method of the layer below" % fid
        if fw:
            b0 = fw[0][0]
            r = A.reach(fn, [0], avoid=[b for b, _ in fw] + errs)
            skip = [x for x in fn.return_blocks() if x in r]
            # the wrapper's own data parameters (everything after self [and the keyspace]) reach the callee
            params = [i for i in range(2, fn.argc + 1) if "Keyspace" not in fn.local_ty(i)]
            seen = set()
            for a in fw[0][1]["args"]:
                for x in A.walk(og.of_operand(a)):
                    if x.k == "param":
                        seen.add(x.a[0])
                    if x.k == "closure":
                        for nm, cap in (x.a[1] or ()):
                            for y in A.walk(cap):
                                if y.k == "param":
                                    seen.add(y.a[0])
            lost = [i for i in params if i not in seen]
            ok = not skip and not lost
            detail = "forwards %s to %s on every non-error path" % ("/".join(fn.local_name(i) if hasattr(fn, "local_name") else "P%d" % i for i in params), A.cname(fw[0][1]).rsplit("::", 2)[-2] + "::" + want[0]) if ok else \
                ("%s can return without calling %s of the layer below: the write is acknowledged and nothing was written" % (fid, op) if skip
                 else "%s does not hand its parameter(s) %s to %s: a different key / value is written" % (fid, lost, A.cname(fw[0][1])))
        ctx.ob(rule, fn, "write-%s-forwarded" % op, ok, detail, fn.loc(fw[0][0]) if fw else "")
        if "TxKeyspace::" in fid and fw and op != "take":
            cm = [(b, t) for b, t in fn.calls() if A.cname(t).endswith("WriteTransaction::commit") or A.cname(t).endswith("::commit")]
            okc = False
            detailc = "the single-operation helper never commits the transaction it opened"
            if cm:
                after = [b for b, _ in cm if any(A.dominates(fn, fb, b) or b in A.reach_after(fn, fb) for fb, _ in fw)]
                r2 = A.reach(fn, [s_ for fb, _ in fw for s_ in fn.succs(fb)], avoid=[b for b, _ in cm] + errs)
                skipc = [x for x in fn.return_blocks() if x in r2]
                rf = A.result_flow(fn, cm[0][0])
                okc = bool(after) and not skipc and not rf.swallowed
                detailc = "commits after the operation on every non-error path and looks at the result" if okc else \
                    ("the helper can return after the operation without committing: the write is acknowledged and dropped with the transaction" if skipc or not after
                     else "the commit's result is discarded: a failed (conflicting / poisoned) commit is acknowledged")
            ctx.ob(rule, fn, "helper-%s-commits" % op, okc, detailc, fn.loc(cm[0][0]) if cm else "")
            # optimistic helpers retry on a conflict: the value is returned on the commit's OK edge and the CONFLICT edge loops
            if cm and "optimistic" in fid:
                isok = [b for b, t in fn.calls() if A.cname(t).endswith(("Result::<T, E>::is_ok", "Result::<T, E>::is_err"))]
                for c in isok:
                    sw = A.switch_after_call(fn, c)
                    if sw is None:
                        continue
                    zero, true_t = A.bool_edges(fn, sw)
                    neg = A.cname(fn.term(c)).endswith("is_err")
                    okedge, conflict = (zero, true_t) if neg else (true_t, zero)
                    heads = [b for b, t in fn.calls() if A.cname(t).endswith("write_tx") and A.in_cycle(fn, b)]
                    ret_on_ok = any(x in A.reach(fn, list(okedge), avoid=heads) for x in fn.return_blocks())
                    ret_on_conflict = any(x in A.reach(fn, list(conflict), avoid=heads) for x in fn.return_blocks())
                    okr = ret_on_ok and not ret_on_conflict and bool(heads)
                    ctx.ob(rule, fn, "helper-%s-returns-only-after-a-successful-commit" % op, okr,
                           "returns on the commit's Ok edge, retries (new transaction) on Conflict" if okr else
                           "the helper returns its result when the commit CONFLICTED (nothing was written) and/or retries after a successful one (the operation is applied twice)", fn.loc(c))
    ctx.floor(rule, "write methods of the transaction wrappers and tx keyspace helpers", n, 24)
