"""C05 — snapshots, read transactions and iterators are frozen in time (registration + instant plumbing)."""
from .. import analysis as A
from .. import roles as R
from .. import locks as L

META = {
    "technique": "who-may-call + origin-term dataflow + held-guard dataflow + field write-site enumeration on MIR",
    "explanation": (
        "Decides the plumbing every frozen view depends on: (1) registration pairing — SnapshotNonce values are built only in "
        "SnapshotTracker::{open,clone_snapshot}, each after incrementing the registry entry of the same instant; close is "
        "called only from the nonce's Drop, close_raw only from close, Clone goes through clone_snapshot (with Rust's "
        "drop-exactly-once: one un-registration per registration); (2) every iterator/point read of a view passes the "
        "view's OWN instant to the tree: at each Iter::new the tree scan's seqno operand is `.instant` of the very nonce "
        "moved into the iterator, and all tree reads of Snapshot / BaseTransaction use self.nonce.instant; (3) Iter, "
        "Snapshot and BaseTransaction own a SnapshotNonce field initialised from their constructor parameter; (4) registry "
        "accesses happen under the gc lock (shared for open/clone/close, exclusive for gc/pullup incl. the watermark "
        "store); (5) the GC watermark is written only by gc (fetch_max) and pullup (store on the registry-empty edge), and "
        "every lsm-tree call taking a GC threshold (flush, compact, major_compact, version-history maintenance) receives "
        "get_seqno_safe_to_gc()."),
    "not_decided": [
        "the arithmetic of gc() (which entry is the lowest retained, saturating_sub(1))",
        "that lsm-tree honours the seqno / GC threshold it is given",
        "repeated-read equality and 'using a live snapshot never fails' as observed behaviour",
    ],
    "assumptions": ["lsm-tree reads at seqno s see exactly versions < s; flush/compact never drop versions needed above the threshold"],
}

TRACKER = "snapshot_tracker::SnapshotTracker"
NONCE_NEW = "snapshot_nonce::SnapshotNonce::new"
SCAN = ("iter", "range", "prefix")
TREE_READS = ("get", "contains_key", "size_of", "iter", "range", "prefix", "first_key_value", "last_key_value", "is_empty", "len", "multi_get")


def tree_read_calls(fn):
    out = []
    for b, t in fn.calls():
        n = A.cname(t)
        if "AbstractTree" in n and n.rsplit("::", 1)[-1] in TREE_READS:
            out.append((b, t))
    return out


def seqno_args(fn, t):
    """operands of a tree read call that carry the read instant (type u64 / const int in the seqno slot)"""
    out = []
    for i, a in enumerate(t["args"][1:], 1):
        p = A.op_place(a)
        if p is not None and fn.local_ty(p["l"]) == "u64" and not p["p"]:
            out.append(a)
        elif "const" in a and a["const"].get("ty") == "u64":
            out.append(a)
    return out


KS_READS = ("get", "contains_key", "size_of", "iter", "range", "prefix", "len", "is_empty", "first_key_value", "last_key_value", "approximate_len")


def view_delegation(ctx, rule, view_fns=None):
    """a frozen view never answers a read through the keyspace's own read API (Keyspace::iter & co. open a FRESH snapshot,
    Keyspace::get & co. read the latest state): inside the Readable methods of Snapshot / BaseTransaction every tree read
    is the direct one at the view's instant (shared with C06: R-C06.5)"""
    F = ctx.F
    if view_fns is None:
        view_fns = [f for fid, f in F.fns.items() if f.d.get("trait") == "readable::Readable" and f.d.get("self_ty") in ("snapshot::Snapshot", "tx::write_tx::BaseTransaction")]
    for fn in view_fns:
        bodies = [fn] + F.closures_of(fn.id)
        bad = []
        for f2 in bodies:
            for b, t in f2.calls():
                n = A.cname(t)
                if n.startswith("keyspace::Keyspace::") and n.rsplit("::", 1)[-1] in KS_READS:
                    bad.append((f2, b, n))
        ctx.ob(rule, fn, "view-does-not-delegate-to-latest-state-reads", not bad,
               "reads only through the tree at the view's own instant" if not bad
               else "the view answers through %s, which reads at a fresh snapshot / the latest state instead of the view's instant: the view is not frozen and can see one half of a batch in a scan and the other half not in a point read" % bad[0][2],
               bad[0][0].loc(bad[0][1]) if bad else "", nontrivial=bool(bad))


def run(ctx):
    F = ctx.F
    cg = ctx.cg

    # ---- R-C05.1 registration pairing
    allowed_new = {TRACKER + "::open", TRACKER + "::clone_snapshot"}
    callers = cg.callers(NONCE_NEW)
    ctx.floor("R-C05.1", "SnapshotNonce::new call sites", callers, 2)
    for f, b in callers:
        fn = F.fns[f]
        ctx.ob("R-C05.1", fn, "constructs-nonce", f in allowed_new,
               "SnapshotNonce::new called from %s (%s)" % (f, "registration path" if f in allowed_new else "a nonce created outside open/clone_snapshot is never registered but un-registers on drop"), fn.loc(b), nontrivial=False)
    for fid, fn in F.fns.items():
        for b, blk in enumerate(fn.blocks):
            if blk["cleanup"]:
                continue
            for st in blk["s"]:
                if st["rv"]["k"] == "agg" and st["rv"].get("adt") == "snapshot_nonce::SnapshotNonce":
                    ctx.ob("R-C05.1", fn, "nonce-aggregate", fid == NONCE_NEW, "SnapshotNonce literal built in %s" % fid, fn.loc(b), nontrivial=False)
    for fid in sorted(allowed_new):
        fn = ctx.fn(fid, "R-C05.1")
        if not fn:
            continue
        nb = R.call_blocks(fn, (NONCE_NEW,))
        eb = [b for b, t in fn.calls() if A.cname(t).startswith("dashmap::DashMap") and A.cname(t).endswith("::entry")]
        ins = [b for b, t in fn.calls() if "dashmap" in A.cname(t) and A.cname(t).rsplit("::", 1)[-1] in ("or_insert", "or_insert_with", "or_default", "insert")]
        ok = False
        detail = "no registry increment before constructing the nonce"
        if nb and eb and ins:
            og = ctx.og(fn)
            key = og.of_operand(fn.term(eb[0])["args"][1])
            inst = og.of_operand(fn.term(nb[0])["args"][0])
            same = A.tkey(key) == A.tkey(inst)
            dom = A.dominates(fn, eb[0], nb[0]) and A.dominates(fn, ins[0], nb[0])
            # the and_modify closure must increment
            inc = False
            for b, t in fn.calls():
                if A.cname(t).endswith("::and_modify"):
                    cl = A.closure_of_operand(fn, t["args"][1])
                    cf = F.fns.get(cl) if cl else None
                    if cf:
                        for blk in cf.blocks:
                            for st in blk["s"]:
                                rv = st["rv"]
                                if rv["k"] == "bin" and rv["op"].startswith("Add") and "const" in rv["b"] and rv["b"]["const"].get("val") == 1:
                                    inc = True
            ok = same and dom and inc
            detail = "registry entry for %s is incremented (and_modify +1 / or_insert) before SnapshotNonce::new(%s)" % (A.tstr(key), A.tstr(inst)) if ok else \
                "registration mismatch: entry key %s vs nonce instant %s; increment dominates construction=%s; +1 in and_modify=%s" % (A.tstr(key), A.tstr(inst), dom, inc)
        ctx.ob("R-C05.1", fn, "registers-before-constructing", ok, detail)
    drop_fn = "<snapshot_nonce::SnapshotNonce as std::ops::Drop>::drop"
    for callee, allowed in ((TRACKER + "::close", {drop_fn}), (TRACKER + "::close_raw", {TRACKER + "::close"})):
        cs = cg.callers(callee)
        ctx.floor("R-C05.1", "callers of %s" % callee.rsplit("::", 1)[-1], cs, 1)
        for f, b in cs:
            fn = F.fns[f]
            ctx.ob("R-C05.1", fn, "calls-%s" % callee.rsplit("::", 1)[-1], f in allowed,
                   "%s called from %s%s" % (callee, f, "" if f in allowed else " — a second un-registration of an instant that the nonce's Drop releases again (double close lets the GC watermark pass a live snapshot)"),
                   fn.loc(b), nontrivial=False)
    dfn = ctx.fn(drop_fn, "R-C05.1")
    if dfn:
        bs = R.call_blocks(dfn, (TRACKER + "::close",))
        ok = bool(bs) and A.dominates(dfn, bs[0], dfn.return_blocks()[0])
        arg_ok = False
        if bs:
            term = ctx.og(dfn).of_operand(dfn.term(bs[0])["args"][1])
            arg_ok = term.k == "param" and term.a[0] == 1
        ctx.ob("R-C05.1", dfn, "drop-unregisters-self", ok and arg_ok, "Drop for SnapshotNonce calls tracker.close(self) on every path" if ok and arg_ok else "Drop does not un-register its own instant")
    cl = ctx.fn("<snapshot_nonce::SnapshotNonce as std::clone::Clone>::clone", "R-C05.1")
    if cl:
        bs = R.call_blocks(cl, (TRACKER + "::clone_snapshot",))
        ctx.ob("R-C05.1", cl, "clone-registers", bool(bs), "Clone for SnapshotNonce goes through clone_snapshot" if bs else "Clone copies the nonce without registering it")
    cr = ctx.fn(TRACKER + "::close_raw", "R-C05.1")
    if cr:
        al = [b for b, t in cr.calls() if A.cname(t).startswith("dashmap::DashMap") and A.cname(t).endswith("::alter")]
        ok = False
        if al:
            term = ctx.og(cr).of_operand(cr.term(al[0])["args"][1])
            ok = term.k == "param" and term.a[0] == 2
        ctx.ob("R-C05.1", cr, "decrements-own-instant", ok, "close_raw alters the entry of its `instant` parameter" if ok else "close_raw does not decrement the entry of the given instant")
    # registry mutation sites
    mut = {"entry", "alter", "alter_all", "retain", "remove", "remove_if", "insert", "clear", "get_mut", "iter_mut", "shrink_to_fit"}
    allowed_mut = {TRACKER + "::open", TRACKER + "::clone_snapshot", TRACKER + "::close_raw", TRACKER + "::gc"}
    nmut = 0
    for fid, fn in F.fns.items():
        for b, t in fn.calls():
            n = A.cname(t)
            if n.startswith("dashmap::DashMap") and n.rsplit("::", 1)[-1] in mut:
                term = ctx.og(fn).of_operand(t["args"][0])
                if any(x.k == "field" and x.a[1] == "data" for x in A.walk(term)):
                    nmut += 1
                    ctx.ob("R-C05.1", fn, "registry-mutation-%s" % n.rsplit("::", 1)[-1], fid in allowed_mut,
                           "open-snapshot table mutated by %s in %s" % (n.rsplit("::", 1)[-1], fid), fn.loc(b), nontrivial=False)
    ctx.floor("R-C05.1", "registry mutation sites", nmut, 4)

    # ---- R-C05.2 reads use the view's own instant
    iters = [(F.fns[f], b) for f, b in cg.callers(R.ITER_NEW) if f in F.fns]
    ctx.floor("R-C05.2", "Iter::new call sites", iters, 9)
    for fn, b in iters:
        t = fn.term(b)
        og = ctx.og(fn)
        nonce = og.of_operand(t["args"][0])
        it = og.of_operand(t["args"][1])
        scans = [x for x in A.walk(it) if x.k == "call" and "AbstractTree" in x.a[0] and x.a[0].rsplit("::", 1)[-1] in SCAN]
        ctx.count_sites()
        if not scans:
            ctx.ob("R-C05.2", fn, "iter-from-tree-scan", False, "Iter::new's iterator does not originate from a tree iter/range/prefix call: %s" % A.tstr(it)[:160], fn.loc(b))
            continue
        sc = scans[0]
        # find the seqno argument: the term that is `.instant` of something or a const
        cand = [a for a in sc.a[1][1:] if (a.k == "field" and a.a[1] == "instant") or a.k == "const" and a.a[0] == "int" or a.k in ("call", "param", "bin")]
        seq = None
        for a in sc.a[1][1:]:
            if a.k == "field" and a.a[1] == "instant":
                seq = a
        if seq is None:
            consts = [a for a in sc.a[1][1:] if a.k == "const" and a.a[0] == "int"]
            ctx.ob("R-C05.2", fn, "scan-at-own-instant", False,
                   "iterator scans the tree at %s instead of the instant of the nonce it holds (%s): it is not frozen — later writes and half-applied batches become visible" % (
                       ", ".join(A.tstr(c) for c in consts) or "a value not derived from a nonce", A.tstr(nonce)[:100]), fn.loc(b))
            continue
        same = A.tkey(seq.a[0]) == A.tkey(nonce)
        ctx.ob("R-C05.2", fn, "scan-at-own-instant", same,
               "tree scan reads at (%s).instant and the iterator holds %s" % (A.tstr(seq.a[0])[:100], A.tstr(nonce)[:100]) + ("" if same else " — a DIFFERENT snapshot registration than the one it reads at"), fn.loc(b))
    view_fns = [f for fid, f in F.fns.items() if f.d.get("trait") == "readable::Readable" and f.d.get("self_ty") in ("snapshot::Snapshot", "tx::write_tx::BaseTransaction")]
    ctx.floor("R-C05.2", "Readable methods of Snapshot / BaseTransaction", view_fns, 16)
    nreads = 0
    for fn in view_fns:
        for b, t in tree_read_calls(fn):
            og = ctx.og(fn)
            sa = seqno_args(fn, t)
            nreads += 1
            ctx.count_sites()
            ok = len(sa) == 1 and A.access_path(og.of_operand(sa[0])) == ("P1", "nonce", "instant")
            ctx.ob("R-C05.2", fn, "tree-%s-at-self.nonce.instant" % A.cname(t).rsplit("::", 1)[-1], ok,
                   "tree read at %s" % ", ".join(A.tstr(og.of_operand(x)) for x in sa) + ("" if ok else " — not the view's own snapshot instant"), fn.loc(b))
    ctx.floor("R-C05.2", "tree reads inside views", nreads, 12)

    view_delegation(ctx, "R-C05.2", view_fns)

    # ---- R-C05.3 views own their registration
    for adt, ctor in (("iter::Iter", "iter::Iter::new"), ("snapshot::Snapshot", "snapshot::Snapshot::new"), ("tx::write_tx::BaseTransaction", "tx::write_tx::BaseTransaction::new")):
        a = F.adts.get(adt)
        has = bool(a) and any(f["ty"] == "snapshot_nonce::SnapshotNonce" for v in a["variants"] for f in v["fields"])
        ctx.ob("R-C05.3", adt, "has-nonce-field", has, "%s %s a SnapshotNonce field" % (adt, "owns" if has else "does NOT own"), nontrivial=False)
        fn = ctx.fn(ctor, "R-C05.3")
        if fn and has:
            ok = False
            for blk in fn.blocks:
                for st in blk["s"]:
                    rv = st["rv"]
                    if rv["k"] == "agg" and rv.get("adt") == adt and "nonce" in rv.get("fields", []):
                        term = ctx.og(fn).of_operand(rv["ops"][rv["fields"].index("nonce")])
                        ok = term.k == "param"
            ctx.ob("R-C05.3", fn, "nonce-field-from-parameter", ok, "constructor stores its nonce parameter in the view" if ok else "constructor does not keep the nonce it was given (registration would end immediately)")
    snap = ctx.fn("db::Database::snapshot", "R-C05.3")
    if snap:
        ok = False
        for b in R.call_blocks(snap, ("snapshot::Snapshot::new",)):
            term = ctx.og(snap).of_operand(snap.term(b)["args"][0])
            ok = term.k == "call" and term.a[0] == R.OPEN_VIEW
        ctx.ob("R-C05.3", snap, "snapshot-from-open", ok, "Database::snapshot = Snapshot::new(tracker.open())" if ok else "Database::snapshot does not register a fresh snapshot")
    for fid in ("tx::single_writer::TxDatabase::read_tx", "tx::optimistic::OptimisticTxDatabase::read_tx"):
        fn = ctx.fn(fid, "R-C05.3")
        if fn:
            ok = cg.reaches(fid, {R.OPEN_VIEW})
            ctx.ob("R-C05.3", fn, "read_tx-registers", ok, "read_tx reaches SnapshotTracker::open" if ok else "read_tx never registers a snapshot", nontrivial=False)

    # ---- R-C05.4 registry under the gc lock
    lm = L.LockModel(ctx)
    for fid, mode, leafs in ((TRACKER + "::open", "read", ("entry", "or_insert")), (TRACKER + "::clone_snapshot", "read", ("entry", "or_insert")),
                             (TRACKER + "::close_raw", "read", ("alter",)), (TRACKER + "::gc", "write", ("retain", "fetch_max")),
                             (TRACKER + "::pullup", "write", ("is_empty", "store"))):
        fn = ctx.fn(fid, "R-C05.4")
        if not fn:
            continue
        gs = [g for g in lm.guards(fn) if g.cls == "gc_lock"]
        if not gs:
            ctx.ob("R-C05.4", fn, "takes-gc-lock", False, "%s does not take the gc lock" % fid)
            continue
        g = gs[0]
        ctx.ob("R-C05.4", fn, "gc-lock-mode-%s" % mode, g.mode == mode,
               "gc lock taken in %s mode (%s required: %s)" % (g.mode, mode, "registrations may run concurrently but never during gc" if mode == "read" else "gc/pullup must exclude registrations"), nontrivial=False)
        for b, t in fn.calls():
            n = A.cname(t)
            leaf = n.rsplit("::", 1)[-1]
            if leaf in leafs and ("dashmap" in n or "Atomic" in n):
                ok, why = A.must_held_at(fn, g, b)
                ctx.count_sites()
                ctx.ob("R-C05.4", fn, "%s-under-gc-lock" % leaf, ok, "%s at %s: gc lock %s" % (n.split("::<")[0], fn.loc(b), "must-held" if ok else "NOT held (%s)" % why), fn.loc(b))

    # ---- R-C05.5 watermark plumbing
    writers = 0
    for fid, fn in F.fns.items():
        for b, t in fn.calls():
            n = A.cname(t)
            if n.startswith("std::sync::atomic::Atomic::<u64>::") and n.rsplit("::", 1)[-1] not in ("load", "new", "get_mut", "into_inner", "as_ptr"):
                term = ctx.og(fn).of_operand(t["args"][0])
                if any(x.k == "field" and x.a[1] == "lowest_freed_instant" for x in A.walk(term)):
                    writers += 1
                    leaf = n.rsplit("::", 1)[-1]
                    ok = (fid == TRACKER + "::gc" and leaf == "fetch_max") or (fid == TRACKER + "::pullup" and leaf == "store")
                    if ok and leaf == "store":
                        # only on the data.is_empty() true edge
                        ie = [bb for bb, tt in fn.calls() if A.cname(tt).endswith("::is_empty") and "dashmap" in A.cname(tt)]
                        ok = False
                        if ie:
                            sw = A.switch_after_call(fn, ie[0])
                            if sw is not None:
                                zero, true_t = A.bool_edges(fn, sw)
                                ok = b in A.reach(fn, true_t) and b not in A.reach(fn, zero, avoid=true_t)
                    ctx.ob("R-C05.5", fn, "watermark-write-%s" % leaf, ok,
                           "GC watermark written by %s in %s%s" % (leaf, fid, "" if ok else " — only gc (fetch_max) and pullup (store, when no snapshot is registered) may move it"), fn.loc(b))
                    if fid == TRACKER + "::pullup" and leaf == "store" and len(t["args"]) > 1:
                        # pullup stores something BELOW the visible seqno: a view opened right afterwards reads at the visible
                        # seqno and must still find every version <= its instant
                        v = ctx.og(fn).of_operand(t["args"][1])
                        below = False
                        for x in A.walk(v):
                            if x.k == "call" and x.a[0].endswith(("::saturating_sub", "::checked_sub", "::wrapping_sub")) and x.a[1] and \
                                    any(y.k == "call" and y.a[0].endswith("SequenceNumberCounter::get") for y in A.walk(x.a[1][0])):
                                below = True
                            if x.k == "bin" and str(x.a[0]).startswith("Sub") and any(y.k == "call" and y.a[0].endswith("SequenceNumberCounter::get") for y in A.walk(x.a[1])):
                                below = True
                        grows = any((x.k == "call" and x.a[0].endswith(("::saturating_add", "::checked_add", "::wrapping_add"))) or (x.k == "bin" and str(x.a[0]).startswith("Add")) for x in A.walk(v))
                        okp = below and not grows
                        ctx.ob("R-C05.5", fn, "pullup-stays-below-the-visible-seqno", okp,
                               "pullup stores visible_seqno - 1" if okp else
                               "pullup raises the GC watermark to %s — not below the visible seqno: a compaction may then drop versions that a snapshot opened right after the pullup (instant = visible seqno) still reads" % A.tstr(v)[:80], fn.loc(b))
    ctx.floor("R-C05.5", "watermark write sites", writers, 2)
    GC_CALLS = {"flush": 2, "compact": 2, "major_compact": 2}
    thr = 0
    EXC = {"meta_keyspace::MetaKeyspace::maintenance": "meta tree never garbage-collects versions (threshold 0)"}
    for fid, fn in F.fns.items():
        for b, t in fn.calls():
            n = A.cname(t)
            leaf = n.rsplit("::", 1)[-1]
            idx = None
            if "AbstractTree" in n and leaf in GC_CALLS:
                idx = GC_CALLS[leaf]
            elif n.endswith("SuperVersions::maintenance"):
                idx = 2
            if idx is None or len(t["args"]) <= idx:
                continue
            thr += 1
            ctx.count_sites()
            term = ctx.og(fn).of_operand(t["args"][idx])
            if fid in EXC:
                ok = term.k == "const" and term.a == ("int", 0)
                ctx.ob("R-C05.5", fn, "gc-threshold-%s" % leaf, ok, "tabled exception (%s): threshold %s" % (EXC[fid], A.tstr(term)), fn.loc(b), nontrivial=False)
                continue
            ok = all(x.k == "call" and x.a[0] == TRACKER + "::get_seqno_safe_to_gc" for x in A.alternatives(term))
            ctx.ob("R-C05.5", fn, "gc-threshold-%s" % leaf, ok,
                   "%s(.., gc threshold := %s)" % (leaf, A.tstr(term)[:120]) + ("" if ok else " — versions still needed by a live snapshot may be dropped"), fn.loc(b))
    ctx.floor("R-C05.5", "lsm-tree calls taking a GC threshold", thr, 5)
    g = ctx.fn(TRACKER + "::get_seqno_safe_to_gc", "R-C05.5")
    if g:
        term = ctx.og(g).of_local(0)
        ok = any(x.k == "field" and x.a[1] == "lowest_freed_instant" for x in A.walk(term)) and not any(x.k == "bin" for x in A.walk(term))
        ctx.ob("R-C05.5", g, "returns-watermark", ok, "get_seqno_safe_to_gc returns lowest_freed_instant unmodified" if ok else "get_seqno_safe_to_gc returns %s" % A.tstr(term))

    # ---- R-C05.6 gc keeps every open registration and derives the watermark from the lowest retained instant
    gcf = ctx.fn(TRACKER + "::gc", "R-C05.6")
    if gcf:
        og = ctx.og(gcf)
        rt = [(b, t) for b, t in gcf.calls() if "dashmap::DashMap" in A.cname(t) and A.cname(t).endswith("::retain")]
        cl = None
        if rt:
            cid = A.closure_of_operand(gcf, rt[0][1]["args"][1])
            cl = F.fns.get(cid) if cid else None
        if not cl:
            ctx.ob("R-C05.6", gcf, "retain-closure-present", False, "gc does not prune the registry with DashMap::retain(closure)")
        else:
            cog = ctx.og(cl)
            # (a) an entry whose count is > 0 is always retained
            keep_ok = False
            detail = "no test of the registration count against 0 in the retain closure"
            for b, blk in enumerate(cl.blocks):
                if blk["t"]["k"] != "switch" or blk["cleanup"]:
                    continue
                cmp_ = A.compare_switch(cl, b, cog)
                if not cmp_:
                    continue
                pos = A.edges_where_less(cmp_, lambda t: t.k == "const" and t.a == ("int", 0),
                                         lambda t: any(x.k == "param" and x.a[0] == 3 for x in A.walk(t)))
                if pos is None:
                    continue
                vals = A.consts_at_return(cl, list(pos))
                # the edge taken for count == 0 only may do anything; every edge on which count > 0 is possible must return true
                op = cmp_[0]
                exact = op in ("Gt", "Lt", "Ne", "Eq", "Le", "Ge")
                keep_ok = vals == {("bool", True)} and exact and not (op in ("Ge", "Le"))
                detail = "retain closure returns true on every path where the registration count is > 0" if keep_ok else \
                    "an instant that still has open snapshots (count > 0) can be dropped from the registry (closure returns %s on the count>0 edge; comparison %s): the GC watermark then passes a live snapshot" % (sorted(map(str, vals)), op)
            ctx.ob("R-C05.6", cl, "open-registrations-are-retained", keep_ok, detail)
            # (b) lowest_retained is the running minimum over retained keys, updated for every retained entry
            bodies_ = [cl] + [f_ for fid_, f_ in sorted(F.fns.items()) if fid_.startswith(cl.id + "::")]
            mins = [(f_, b) for f_ in bodies_ for b, t in f_.calls() if A.cname(t) in ("std::cmp::Ord::min", "core::cmp::Ord::min", "std::cmp::min")]
            maxs = [b for f_ in bodies_ for b, t in f_.calls() if A.cname(t).rsplit("::", 1)[-1] in ("max", "saturating_add", "wrapping_add")]
            ok_min = bool(mins) and not maxs
            if mins:
                mf, mb = mins[0]
                mog = ctx.og(mf)
                args = [mog.of_operand(a) for a in mf.term(mb)["args"]]
                if mf is cl:
                    # `lo.min(k)` on the captured candidate
                    ok_min = ok_min and any(any(x.k == "field" and x.a[1] == "lowest_retained" for x in A.walk(a)) for a in args) and \
                        any(any(x.k == "param" and x.a[0] == 2 for x in A.walk(a)) for a in args)
                else:
                    # `lowest_retained.map_or(k, |lo| lo.min(k))`: the nested closure's parameter is the old candidate, k is captured;
                    # the outer closure hands it the captured candidate
                    outer_ok = any(x.k == "call" and x.a[0].rsplit("::", 1)[-1] in ("map_or", "map", "map_or_else") and any(y.k == "field" and y.a[1] == "lowest_retained" for a_ in x.a[1] for y in A.walk(a_))
                                   for blk_ in cl.blocks for st_ in blk_["s"] for x in A.walk(cog.of_rvalue(st_["rv"]))) or \
                        any(A.cname(t_).rsplit("::", 1)[-1] in ("map_or", "map", "map_or_else") and any(y.k == "field" and y.a[1] == "lowest_retained" for a_ in t_["args"] for y in A.walk(cog.of_operand(a_))) for _, t_ in cl.calls())
                    ok_min = ok_min and outer_ok and any(x.k == "param" for a in args for x in A.walk(a))
            ctx.ob("R-C05.6", cl, "lowest-retained-is-running-minimum", ok_min,
                   "lowest_retained := min(lowest_retained, k) over the retained instants" if ok_min else "the watermark candidate is not the minimum over the retained instants (min calls %d, max-like calls %d)" % (len(mins), len(maxs)))
            # no in-band sentinel: the candidate's own VALUE must not be what tells "nothing retained yet" from a retained
            # instant — 0 is a valid instant (a view of the empty database); with `0 => k` the instant-0 registration is
            # forgotten as soon as a second instant is retained, and the watermark passes a live view
            sentinel = []
            for f_ in bodies_:
                fog = ctx.og(f_)
                for b, blk in enumerate(f_.blocks):
                    t = blk["t"]
                    if t["k"] == "switch" and not blk["cleanup"] and t.get("dty") in ("u64", "usize") and any(v == 0 for v, _ in t["vs"]):
                        term = fog.of_operand(t["d"])
                        if any(x.k == "field" and x.a[1] == "lowest_retained" for x in A.walk(term)):
                            sentinel.append((f_, b))
            ctx.ob("R-C05.6", cl, "lowest-retained-has-no-in-band-sentinel", not sentinel,
                   "the candidate is not compared against a magic value" if not sentinel
                   else "`lowest_retained == 0` is used as \"unset\": a registration at instant 0 (a transaction begun on the empty database) is dropped from the minimum once another instant is retained; the watermark passes the live view and the optimistic oracle prunes the commits it still has to be validated against (lost update)",
                   sentinel[0][0].loc(sentinel[0][1]) if sentinel else "")
            # every retained entry takes part: whenever the closure can return true, the write to *lowest_retained happened
            wr = [b for b, blk in enumerate(cl.blocks) if not blk["cleanup"] for st in blk["s"]
                  if st["p"]["p"] == ["*"] and A.access_path(cog.of_local(st["p"]["l"])) == ("P1", "lowest_retained")]
            skipped = A.consts_at_return(cl, [0], avoid=wr)
            upd_ok = bool(wr) and skipped <= {("bool", False)}
            ctx.ob("R-C05.6", cl, "every-retained-instant-lowers-the-candidate", upd_ok,
                   "the closure returns true only on paths that updated lowest_retained" if upd_ok else "an instant can be retained (closure result %s) without taking part in the lowest-retained computation" % sorted(map(str, skipped)))
        # (c) the watermark is derived from lowest_retained (never above it)
        fm = [(b, t) for b, t in gcf.calls() if A.cname(t) == "std::sync::atomic::Atomic::<u64>::fetch_max"]
        okw = False
        detail = "gc does not fetch_max the watermark"
        if fm:
            val = og.of_operand(fm[0][1]["args"][1])
            v2 = val
            sub = None
            if v2.k == "call" and v2.a[0].rsplit("::", 1)[-1] in ("saturating_sub", "wrapping_sub", "checked_sub"):
                sub = v2
                v2 = v2.a[1][0]
            elif v2.k == "bin" and v2.a[0].startswith("Sub"):
                sub = v2
                v2 = v2.a[1]
            grows = [x for x in A.walk(val) if (x.k == "bin" and x.a[0].startswith(("Add", "Mul"))) or (x.k == "call" and x.a[0].rsplit("::", 1)[-1] in ("saturating_add", "wrapping_add", "max"))]
            from_lr = "lowest_retained" in A.tstr(val) or any(A.ends_with_field(x, "seqno") for x in A.walk(val))
            okw = not grows and from_lr
            detail = "watermark := fetch_max(%s)" % A.tstr(val)[:120] + ("" if okw else " — not derived from (or raised above) the lowest retained instant")
        ctx.ob("R-C05.6", gcf, "watermark-from-lowest-retained", okw, detail)


    # ---- R-C05.7 a view is frozen: its instant never exceeds the seqno of a write that is still being applied — nothing may raise
    # the visible counter past an in-flight batch (shared with C06: R-C06.6 — same defect, same seven call sites: a snapshot
    # opened at that moment later watches the rest of the batch appear: get(last) goes from None to Some, len() grows)
    from . import C06
    C06.version_change_rules(ctx, "R-C05.7")

    # ---- R-C05.11 the registry counts views one by one: open / clone add exactly one registration (first = 1), close takes
    #      exactly one back. Taking back two releases a sibling view's instant: gc then frees versions it still reads.
    registration_arithmetic(ctx, "R-C05.11")

    # ---- borrowed obligations (mechanisms owned by other properties that this property's verdict also rests on)
    # a snapshot opened while a batch is being applied must not be handed an instant past the batch
    ctx.borrow("C06", ["R-C06.11"], "R-C05.10")
    # a view's instant covers nothing that is still to be written: publish uses the drawn seqno, views take the visible counter
    ctx.borrow("C06", ["R-C06.1", "R-C06.2", "R-C06.3", "R-C06.4"], "R-C05.8")
    # the meta keyspace publishes exactly what it drew
    ctx.borrow("C11", ["R-C11.4"], "R-C05.9")



def _int_consts(fn):
    """integer constants used as the second operand of add / sub operations (statements and saturating_* calls)"""
    out = []
    for b, blk in enumerate(fn.blocks):
        if blk["cleanup"]:
            continue
        for st in blk["s"]:
            rv = st["rv"]
            if rv["k"] in ("bin", "checked_bin") and rv.get("op", "").startswith(("Add", "Sub")) and "const" in rv.get("b", {}):
                out.append((rv["op"][:3], rv["b"]["const"].get("val")))
    for b, t in fn.calls():
        n = A.cname(t)
        if n.endswith(("::saturating_sub", "::saturating_add", "::wrapping_sub", "::wrapping_add", "::checked_sub", "::checked_add")) and len(t["args"]) == 2 and "const" in t["args"][1]:
            out.append(("Sub" if "_sub" in n else "Add", t["args"][1]["const"].get("val")))
    return out


def registration_arithmetic(ctx, rule):
    F = ctx.F
    T = "snapshot_tracker::SnapshotTracker::"
    n = 0
    for leaf in ("open", "clone_snapshot"):
        fn = ctx.fn(T + leaf, rule)
        if not fn:
            continue
        og = ctx.og(fn)
        ins = [(b, t) for b, t in fn.calls() if A.cname(t).endswith("::or_insert")]
        first = [og.of_operand(t["args"][1]) for b, t in ins]
        first_ok = len(ins) == 1 and first[0].k == "const" and first[0].a[:2] == ("int", 1)
        mods = [f for fid, f in F.fns.items() if fid.startswith(T + leaf + "::{closure")]
        ar = [c for f in mods for c in _int_consts(f)]
        mod_ok = ar == [("Add", 1)]
        n += 1
        ctx.ob(rule, fn, "registers-exactly-one", first_ok and mod_ok,
               "first registration of an instant = 1, every further one += 1" if first_ok and mod_ok else
               "registration arithmetic is %s with first value %s (want += 1 / 1): the count of open views at an instant is wrong — gc frees an instant a view still reads, or never frees it" % (ar, [A.tstr(x) for x in first]))
    cr = ctx.fn(T + "close_raw", rule)
    if cr:
        alt = [(b, t) for b, t in cr.calls() if A.cname(t).endswith("::alter")]
        mods = [f for fid, f in F.fns.items() if fid.startswith(T + "close_raw::{closure")]
        ar = [c for f in mods for c in _int_consts(f)]
        ok = len(alt) == 1 and ar == [("Sub", 1)] and not A.in_cycle(cr, alt[0][0])
        n += 1
        ctx.ob(rule, cr, "unregisters-exactly-one", ok,
               "closing a view takes one registration back (saturating)" if ok else
               "close_raw's arithmetic is %s over %d alter call(s) (want one `- 1`): closing one view releases a sibling's registration — gc then frees versions the sibling still reads" % (ar, len(alt)))
    ctx.floor(rule, "registry arithmetic sites", n, 3)
