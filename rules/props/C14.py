"""C14 — concurrent single operations are linearizable, no write is lost (lock discipline clauses)."""
from .. import analysis as A
from .. import roles as R
from .. import locks as L

META = {
    "technique": "held-guard dataflow on MIR + inter-procedural lock-order graph + dominance",
    "explanation": (
        "R-C14.6: every point read of a tree outside the meta keyspace reads at the instant of a registered view (one notion of visible for get/contains_key/size_of and scans: no read sees a write between apply and publish). R-C14.7: the write-halt loop sends a Compact request on every iteration (a halted writer asks for the work it waits for). "
        "Decides the lock discipline that linearizability of single operations rests on: (1) in every write entry point the "
        "journal mutex guard is must-held (on all CFG paths) at the seqno draw, the journal append, persist, every memtable "
        "apply and the publish, and is acquired once; (2) memtable rotation re-checks the memtable id under the journal lock "
        "and both callers pass their guard in; ingestion holds the lock across the inner finish; (3) no blocking call "
        "(sleep, write stall, bounded-channel send, wait_for_empty) is reachable while the journal lock may be held; "
        "(4) the crate-wide lock-order graph (all Mutex/RwLock acquisitions found by type, held regions from guard "
        "lifetimes in MIR, inter-procedural through the call graph incl. closures) is acyclic apart from one reviewed "
        "construction-phase edge; (5) stall loops re-read a tree counter and hold no lock."),
    "not_decided": [
        "linearizability of histories as observed behaviour (needs a concurrent history checker)",
        "reader/writer visibility inside lsm-tree's memtable",
        "eventual progress under real scheduling (liveness); only the structural 'nothing blocks under the journal lock, stall loops re-read their condition' part is decided",
        "a MutexGuard stored in a struct field (single-writer transaction) is tracked by C08, not by the lock-order graph",
    ],
    "assumptions": [
        "std Mutex/RwLock guards release exactly when dropped; MIR drop elaboration is precise about moved-out guards",
        "lsm-tree's get_version_history_lock/get_flush_lock are leaf locks inside lsm-tree",
    ],
}

BLOCKING = {
    "std::thread::sleep", "keyspace::Keyspace::local_backpressure", "keyspace::Keyspace::check_write_halt",
    "keyspace::write_delay::perform_write_stall", "flush::manager::FlushManager::wait_for_empty",
    "flume::Sender::<T>::send", "flume::Receiver::<T>::recv", "std::thread::JoinHandle::<T>::join",
}

# lock-order exceptions: (held, acquired) -> {function: reason}
ORDER_EXCEPTIONS = {
    ("keyspaces", "J"): {
        "db::Database::recover": "construction phase: the Database value is not yet returned, no other thread holds a handle "
                                 "and the worker pool is started only afterwards (checked by R-C14.4b / R-C02.4)",
    },
}


def run(ctx):
    F = ctx.F
    lm = L.LockModel(ctx)
    entries = R.write_entries(ctx)
    ctx.floor("R-C14.1", "write entry points", entries, 5)

    # ---- R-C14.1 one critical section
    held_sites = 0
    for fn in entries:
        gs = R.j_guards(ctx, fn)
        ctx.ob("R-C14.1", fn, "journal-lock-acquired-once", len(gs) == 1,
               "journal lock acquired %d time(s) in the entry point" % len(gs), nontrivial=False)
        if not gs:
            continue
        g = gs[0]
        roles = [("seqno-draw", R.seqno_draw_blocks(ctx, fn)),
                 ("append", R.call_blocks(fn, R.APPEND)),
                 ("persist", R.call_blocks(fn, (R.PERSIST,))),
                 ("apply", R.apply_blocks(fn)),
                 ("publish", R.call_blocks(fn, (R.PUBLISH,)))]
        for role, blocks in roles:
            if role != "persist" and not blocks:
                ctx.ob("R-C14.1", fn, role + "-present", False, "write entry point has no %s call" % role)
            for i, b in enumerate(blocks):
                ok, why = A.must_held_at(fn, g, b)
                held_sites += 1
                ctx.count_sites()
                ctx.ob("R-C14.1", fn, "%s#%d-under-journal-lock" % (role, i + 1), ok,
                       "%s at %s: journal lock %s" % (A.cname(fn.term(b)), fn.loc(b), "must-held on every path" if ok else "NOT held on every path (%s)" % why),
                       fn.loc(b))
    ctx.floor("R-C14.1", "held-at sites", held_sites, 25)

    # ---- R-C14.2 rotation re-checks under J; callers pass their guard; ingestion holds J
    irm = ctx.fn("keyspace::Keyspace::inner_rotate_memtable", "R-C14.2")
    if irm:
        gs = [g for g in lm.guards(irm) if g.cls == "J" and g.from_param]
        ctx.ob("R-C14.2", irm, "guard-is-a-parameter", len(gs) == 1, "inner_rotate_memtable takes the journal guard by value: %s" % bool(gs), nontrivial=False)
        rot = [b for b, t in irm.calls() if A.is_call_to(t, ("*AbstractTree>::rotate_memtable", "lsm_tree::AbstractTree::rotate_memtable"))]
        ctx.floor("R-C14.2", "tree.rotate_memtable() in inner_rotate_memtable", rot, 1)
        og = ctx.og(irm)
        checks = []
        for b, blk in enumerate(irm.blocks):
            t = blk["t"]
            if t["k"] != "switch" or blk["cleanup"]:
                continue
            term = og.of_operand(t["d"])
            neg = False
            while term.k == "un" and term.a[0] == "Not":
                neg = not neg
                term = term.a[1]
            if term.k == "bin" and term.a[0] in ("Ne", "Eq"):
                sides = [term.a[1], term.a[2]]
                has_id = any(A.calls_in(s, "Memtable::id") for s in sides)
                has_param = any(s.k == "param" for s in sides)
                if has_id and has_param:
                    differ_is_true = (term.a[0] == "Ne") != neg
                    zero = [tg for v, tg in t["vs"] if v == 0]
                    true_t = [x for x in irm.succs(b) if x not in zero]
                    differ_edge = true_t if differ_is_true else zero
                    checks.append((b, differ_edge))
        ok = False
        detail = "no comparison of active_memtable().id() with the memtable_id parameter found"
        if checks and rot and gs:
            b, differ = checks[0]
            dom = all(A.dominates(irm, b, r) for r in rot)
            leak = [r for r in rot if r in A.reach(irm, differ)]
            held = all(A.must_held_at(irm, gs[0], x)[0] for x in [b] + rot)
            ok = dom and not leak and held
            detail = "id re-check %s rotate_memtable(); stale-id edge %s; journal guard %s at both" % (
                "dominates" if dom else "does NOT dominate", "skips rotation" if not leak else "still rotates", "must-held" if held else "NOT held")
        ctx.ob("R-C14.2", irm, "id-recheck-under-lock", ok, detail)
        callers = [(F.fns[f], b) for f, b in ctx.cg.callers(irm.id) if f in F.fns]
        ctx.floor("R-C14.2", "callers of inner_rotate_memtable", callers, 2)
        for fn, b in callers:
            t = fn.term(b)
            cg_ = R.j_guards(ctx, fn)
            passed = False
            for g in cg_:
                for a in t["args"]:
                    if "move" in a and a["move"]["l"] in g.aliases and not a["move"]["p"]:
                        if g.site is None or A.dominates(fn, g.site, b):
                            passed = True
            ctx.ob("R-C14.2", fn, "passes-own-journal-guard", passed,
                   "caller %s the journal guard it acquired into inner_rotate_memtable" % ("moves" if passed else "does NOT move"), fn.loc(b))
    ing = ctx.fn("ingestion::Ingestion::<'a>::finish", "R-C14.2")
    if ing:
        gs = R.j_guards(ctx, ing)
        fin = [b for b, t in ing.calls() if A.cname(t).endswith("AnyIngestion::<'_>::finish") or A.cname(t).endswith("AnyIngestion::<'a>::finish") or ("Ingestion" in A.cname(t) and A.cname(t).endswith("::finish") and "lsm_tree" in A.cname(t))]
        ctx.floor("R-C14.2", "inner ingestion finish() call", fin, 1)
        ok = bool(gs) and bool(fin) and all(A.must_held_at(ing, gs[0], b)[0] for b in fin)
        why = "" if ok else (A.must_held_at(ing, gs[0], fin[0])[1] if gs and fin else "no journal lock acquisition")
        ctx.ob("R-C14.2", ing, "ingestion-finish-under-journal-lock", ok,
               "journal lock %s across the inner finish() (tables are registered while writers are excluded)" % ("held" if ok else "NOT held: " + why))

    # ---- R-C14.3 nothing blocks under J
    n_regions = 0
    for fid, fn in F.fns.items():
        for g in lm.guards(fn):
            if g.cls != "J":
                continue
            n_regions += 1
            held, kills = A.held_blocks(fn, g)
            for b in sorted(held):
                t = fn.term(b)
                if t["k"] != "call" or b == g.site:
                    continue
                if b in kills and kills[b].startswith("moved-into:"):
                    continue  # the callee owns the guard now; analysed as its parameter guard
                ctx.count_sites()
                n = A.cname(t)
                hit = None
                if n in BLOCKING or (t.get("callee") in BLOCKING):
                    hit = [n]
                elif n in F.fns:
                    hit = ctx.cg.call_chain(n, BLOCKING)
                    if hit:
                        hit = [n] + hit[1:] if hit[0] == n else [n] + hit
                if hit is None:
                    for a in t["args"]:
                        cl = A.closure_of_operand(fn, a)
                        if cl and cl in F.fns:
                            ch = ctx.cg.call_chain(cl, BLOCKING)
                            if ch:
                                hit = ch
                if hit:
                    ctx.ob("R-C14.3", fn, "blocking-under-journal-lock:%s" % hit[-1], False,
                           "while the journal lock may be held, %s calls %s" % (fn.loc(b), " -> ".join(hit)), fn.loc(b))
    ctx.floor("R-C14.3", "journal-lock held regions examined", n_regions, 11)
    ctx.ob("R-C14.3", "<crate>", "no-blocking-call-under-journal-lock",
           not any(o.rule == "R-C14.3" and not o.ok and o.kind == "rule" for o in ctx.obs),
           "examined every call in every journal-lock held region (%d regions) against %d blocking primitives, transitively" % (n_regions, len(BLOCKING)))

    # ... nor under the other database-wide locks: the workers need `keyspaces` (write, when a journal rotation captures the
    # watermarks) and `journal_manager`; a client thread that waits for background work (back-pressure, write halt, a
    # blocking queue send) while holding one of them waits for workers that wait for it
    WIDE = ("keyspaces", "journal_manager")
    WIDE_EXC = {}
    n_wide = 0
    for fid, fn in sorted(F.fns.items()):
        for g in lm.guards(fn):
            if g.cls not in WIDE:
                continue
            n_wide += 1
            held, kills = A.held_blocks(fn, g)
            bad = None
            for b in sorted(held):
                t = fn.term(b)
                if t["k"] != "call" or b == g.site or (b in kills and kills[b].startswith("moved-into:")):
                    continue
                n = A.cname(t)
                hit = [n] if n in BLOCKING else (ctx.cg.call_chain(n, BLOCKING) if n in F.fns else None)
                if hit is None:
                    for a in t["args"]:
                        cl = A.closure_of_operand(fn, a)
                        if cl and cl in F.fns and ctx.cg.call_chain(cl, BLOCKING):
                            hit = ctx.cg.call_chain(cl, BLOCKING)
                if hit:
                    bad = (b, hit)
                    break
            if (g.cls, fid) in WIDE_EXC:
                ctx.ob("R-C14.3", fn, "nothing-waits-under-the-%s-lock" % g.cls, True, "reviewed exception: " + WIDE_EXC[(g.cls, fid)], nontrivial=False)
                continue
            ctx.ob("R-C14.3", fn, "nothing-waits-under-the-%s-lock" % g.cls, bad is None,
                   "no stall / blocking send while the %s lock may be held" % g.cls if bad is None else
                   "while the `%s` lock (%s) may still be held, %s calls %s: a client waiting for background work under a lock the workers need (journal rotation takes keyspaces.write(), maintenance takes journal_manager) — both sides wait forever" % (
                       g.cls, g.mode, fn.loc(bad[0]), " -> ".join(bad[1])[:140]), fn.loc(bad[0]) if bad else "")
    ctx.floor("R-C14.3", "keyspaces / journal_manager held regions examined", n_wide, 20)

    # ---- R-C14.4 lock order acyclic
    edges = lm.order_edges()
    ctx.floor("R-C14.4", "lock-order edges", edges, 10)
    classes = {a for a, _ in edges} | {b for _, b in edges}
    for need in ("J", "keyspaces", "journal_manager", "gc_lock", "write_serialize_lock"):
        ctx.ob("R-C14.4", "<lock-table>", "class-%s-discovered" % need, need in classes,
               "lock class `%s` %s in the order graph" % (need, "present" if need in classes else "missing (acquisition not recognised)"), nontrivial=False, kind="floor")
    eff = {}
    for e, ws in edges.items():
        exc = ORDER_EXCEPTIONS.get(e, {})
        rest = [w for w in ws if w[0] not in exc]
        if rest:
            eff[e] = rest
        else:
            ctx.ob("R-C14.4", ws[0][0], "tabled-edge-%s->%s" % e, True, "reviewed exception: " + exc[ws[0][0]], nontrivial=False)
    cycles = L.find_cycles(eff)
    for cyc in cycles:
        wit = []
        for a, b in zip(cyc, cyc[1:]):
            wit.append(eff[(a, b)][0][1])
        ctx.ob("R-C14.4", "<lock-order>", "cycle:" + "->".join(cyc), False, "lock-order cycle %s; witnesses: %s" % (" -> ".join(cyc), " || ".join(wit)))
    ctx.ob("R-C14.4", "<lock-order>", "acyclic", not cycles,
           "lock-order graph over %d classes / %d edges is %s (order: %s)" % (len(classes), len(eff), "acyclic" if not cycles else "CYCLIC",
                                                                               "; ".join("%s<%s" % e for e in sorted(eff))))
    # the tabled exception is only sound because workers start after the replay: R-C14.4b
    rec = ctx.fn("db::Database::recover", "R-C14.4")
    if rec:
        st = R.call_blocks(rec, ("worker_pool::WorkerPool::start",))
        rd = R.call_blocks(rec, ("journal::Journal::get_reader",))
        ok = bool(st) and bool(rd) and all(r not in A.reach_after(rec, s) and s in A.reach_after(rec, r) for r in rd for s in st)
        ctx.ob("R-C14.4", rec, "workers-start-after-replay", ok,
               "WorkerPool::start %s (keeps the tabled keyspaces->J edge single-threaded)" % ("is only reachable after the active-journal replay, never before it" if ok else "can run BEFORE the active-journal replay"))

    # ---- R-C14.5 stall loops re-read a counter and hold no lock
    loops = 0
    for fid in ("keyspace::Keyspace::check_write_halt", "keyspace::Keyspace::local_backpressure"):
        fn = ctx.fn(fid, "R-C14.5")
        if not fn:
            continue
        no_lock = not lm.guards(fn)
        for comp in A.sccs(fn):
            if len(comp) < 2:
                continue
            sleeps = [b for b in comp if fn.term(b)["k"] == "call" and A.cname(fn.term(b)) == "std::thread::sleep"]
            if not sleeps:
                continue
            loops += 1
            rereads = [b for b in comp if fn.term(b)["k"] == "call" and A.cname(fn.term(b)).rsplit("::", 1)[-1] in ("l0_run_count", "sealed_memtable_count")]
            ctx.ob("R-C14.5", fn, "stall-loop-%s" % (A.cname(fn.term(rereads[0])).rsplit("::", 1)[-1] if rereads else "?"),
                   bool(rereads) and no_lock,
                   "stall loop %s its tree counter each iteration and the function holds %s lock" % ("re-reads" if rereads else "does NOT re-read", "no" if no_lock else "a"))
    ctx.floor("R-C14.5", "stall loops", loops, 2)

    # ---- R-C14.5 a sealed memtable always gets a flush task: writers of a keyspace with 4 sealed memtables wait in
    # local_backpressure() until a flush removes one — if the rotation that sealed a memtable does not enqueue a task for
    # THIS keyspace and wake a worker, nobody ever flushes it and its writers wait forever
    irm = ctx.fn("keyspace::Keyspace::inner_rotate_memtable", "R-C14.5")
    if irm:
        og = ctx.og(irm)
        rot = [b for b, t in irm.calls() if A.cname(t).endswith("AbstractTree>::rotate_memtable")]
        enq = []
        for b, t in irm.calls():
            if A.cname(t) == "flush::manager::FlushManager::enqueue":
                task = og.of_operand(t["args"][1])
                own = any(x.k == "agg" and str(x.a[0]).endswith("Task") for x in A.walk(task)) and any(x.k == "param" and x.a[0] == 1 for x in A.walk(task))
                if own:
                    enq.append(b)
        wake = [b for b, t in irm.calls() if A.cname(t).startswith("flume::Sender") and A.cname(t).rsplit("::", 1)[-1] in ("send", "try_send")
                and A.variants_in(og.of_operand(t["args"][1]), "WorkerMessage") == {"Flush"}]
        ok = False
        detail = "inner_rotate_memtable does not seal / enqueue / wake"
        if rot and enq and wake:
            sw = A.switch_after_call(irm, rot[0])
            some_t = []
            if sw is not None:
                _, labels = A.switch_info(irm, sw)
                some_t = [tg for tg, ns in labels.items() if "Some" in ns]
            errs = list(A.error_starts(irm))
            # the workers may be gone (database dropped, only this handle survives): the weak sender's upgrade() answering
            # None is the one legitimate way around the wake-up
            gone = []
            for b_, t_ in irm.calls():
                if A.cname(t_).endswith("WeakSender::<T>::upgrade") or A.cname(t_).endswith("::upgrade") and "flume" in A.cname(t_):
                    s_, labels_ = A.option_switch_on(irm, og, b_)
                    gone += [tg for tg, ns in labels_.items() if "None" in ns]
            r1 = A.reach(irm, some_t, avoid=enq + errs)
            r2 = A.reach(irm, some_t, avoid=wake + errs + gone)
            miss_enq = [x for x in irm.return_blocks() if x in r1]
            miss_wake = [x for x in irm.return_blocks() if x in r2]
            ok = bool(some_t) and not miss_enq and not miss_wake
            detail = "after a memtable was sealed, every path enqueues a flush task for this keyspace and sends WorkerMessage::Flush" if ok else \
                "a memtable can be sealed without %s: it is never flushed, and once four sealed memtables pile up every writer of the keyspace waits in local_backpressure() forever" % (
                    "a flush task for this keyspace being enqueued (e.g. skipped when the SHARED flush queue is not empty)" if miss_enq else "a worker being woken (WorkerMessage::Flush)")
        ctx.ob("R-C14.5", irm, "sealed-memtable-always-gets-a-flush-task", ok, detail)

    # ---- R-C14.6 one notion of "visible" for every read.  A writer applies its items to the memtable and THEN publishes the
    # seqno; scans, snapshots and transactions read at the visible seqno.  A point read at SeqNo::MAX (or any raw number)
    # sees the write between apply and publish: a get() finds an insert that a range read started LATER does not find (no
    # linearization point), and two get()s see half a batch.  Every tree read outside the meta keyspace reads at the
    # instant of a registered view.
    from . import C05
    POINT = ("get", "contains_key", "size_of")
    npoint = 0
    for fid, fn in sorted(F.fns.items()):
        if fid.startswith("meta_keyspace::") or fid.startswith("<meta_keyspace::"):
            continue  # internal; written and read under the keyspaces lock
        for b, t in C05.tree_read_calls(fn):
            leaf = A.cname(t).rsplit("::", 1)[-1]
            if leaf not in POINT:
                continue
            og = ctx.og(fn)
            terms = [og.of_operand(x) for x in C05.seqno_args(fn, t)]
            npoint += 1
            ctx.count_sites()
            ok = len(terms) == 1 and any(x.k == "field" and x.a[1] in ("instant",) for x in A.alternatives(terms[0]))
            ctx.ob("R-C14.6", fn, "point-read-%s#%d-at-view-instant" % (leaf, sum(1 for bb, tt in C05.tree_read_calls(fn) if bb < b and A.cname(tt) == A.cname(t)) + 1), ok,
                   "tree.%s reads at %s" % (leaf, ", ".join(A.tstr(x)[:60] for x in terms)) + ("" if ok else
                   " — not the instant of a registered view: the read sees a write that is applied but not yet published, which a range read / snapshot started afterwards does not see (reads disagree on the order of writes)"), fn.loc(b))
    ctx.floor("R-C14.6", "point reads of a tree outside the meta keyspace", npoint, 9)

    # ---- R-C14.7 a writer that waits for background work asks for it.  check_write_halt() parks writers while L0 has >= 30
    # runs; compaction requests are otherwise only sent after a flush and can all be consumed (declined: L0 busy) while one
    # long compaction runs.  The waiting loop itself must send WorkerMessage::Compact.
    cwh = ctx.fn("keyspace::Keyspace::check_write_halt", "R-C14.7")
    if cwh:
        og = ctx.og(cwh)
        l0 = [b for b, t in cwh.calls() if A.cname(t).endswith("::l0_run_count")]
        sleeps = [b for b, t in cwh.calls() if A.cname(t) == "std::thread::sleep"]
        sends = [b for b, t in cwh.calls() if A.cname(t).endswith(("Sender::<T>::try_send", "Sender::<T>::send")) and
                 any("Compact" in str(x.a[0]) for x in A.walk(og.of_operand(t["args"][1])) if x.k == "agg")]
        loop = [b for b in l0 if A.in_cycle(cwh, b)]
        ok = False
        detail = "check_write_halt has no waiting loop on l0_run_count()"
        if loop:
            cyc_sends = [s for s in sends if A.in_cycle(cwh, s)]
            # the workers may be gone (weak sender): only that edge may go around the send
            gone = []
            for b_, t_ in cwh.calls():
                if A.cname(t_).endswith("::upgrade") and "flume" in A.cname(t_):
                    s_, labels_ = A.option_switch_on(cwh, og, b_)
                    gone += [tg for tg, ns in labels_.items() if "None" in ns]
            ok = bool(cyc_sends) and all(sl not in A.reach(cwh, cwh.succs(loop[0]), avoid=cyc_sends + gone + loop) for sl in sleeps if A.in_cycle(cwh, sl))
            detail = "every iteration of the halt loop sends WorkerMessage::Compact for this keyspace before it sleeps" if ok else \
                "the write-halt loop only sleeps and re-reads l0_run_count(): nobody requests the compaction it waits for — when the post-flush Compact messages were consumed while another compaction ran, writers stay parked forever on an idle database"
        ctx.ob("R-C14.7", cwh, "halted-writer-requests-compaction", ok, detail)

    # ---- R-C14.7 (cont.) nobody waits for work that cannot happen: a deleted keyspace is never compacted again, and once the
    # database is gone no worker exists.  Both stall loops leave on `is_deleted` and on a dead worker queue.
    for fid_ in ("keyspace::Keyspace::check_write_halt", "keyspace::Keyspace::local_backpressure"):
        fn_ = ctx.fn(fid_, "R-C14.7")
        if not fn_:
            continue
        og_ = ctx.og(fn_)
        loops_ = [set(c) for c in A.sccs(fn_) if len(c) > 1 and any(fn_.term(b)["k"] == "call" and A.cname(fn_.term(b)) == "std::thread::sleep" for b in c)]
        okd = okw = bool(loops_)
        for comp in loops_:
            dels = [b for b in comp if fn_.term(b)["k"] == "call" and A.cname(fn_.term(b)) == "std::sync::atomic::Atomic::<bool>::load"
                    and any(x.k == "field" and x.a[1] == "is_deleted" for x in A.walk(og_.of_operand(fn_.term(b)["args"][0])))]
            ups = [b for b in comp if fn_.term(b)["k"] == "call" and A.cname(fn_.term(b)).endswith("::upgrade") and "flume" in A.cname(fn_.term(b))]
            # each test has an edge that leaves the loop
            def leaves(b):
                for x in A.reach(fn_, fn_.succs(b), avoid=[y for y in comp if y != b and fn_.term(y)["k"] == "call" and (
                        A.cname(fn_.term(y)) == "std::thread::sleep" or A.cname(fn_.term(y)).endswith(("::l0_run_count", "::sealed_memtable_count")))]):
                    if fn_.term(x)["k"] == "switch" and any(s_ not in comp for s_ in fn_.succs(x)):
                        return True
                return False
            okd = okd and any(leaves(b) for b in dels)
            okw = okw and any(leaves(b) for b in ups)
        ctx.ob("R-C14.7", fn_, "stall-loop-ends-when-the-keyspace-is-deleted", okd,
               "the waiting loop leaves when is_deleted is set" if okd else
               "%s waits for a compaction / flush of its keyspace without looking at is_deleted: compactions of a deleted keyspace are declined, so a writer parked here when another thread deletes the keyspace waits forever (and, holding the single-writer lock, blocks every other writer)" % fid_)
        ctx.ob("R-C14.7", fn_, "stall-loop-ends-when-the-workers-are-gone", okw,
               "the waiting loop leaves when the worker queue is gone (the database was dropped, only this handle is left)" if okw else
               "%s waits for background work although the database — and every worker — may be gone (a keyspace handle can outlive the database): the writer spins forever" % fid_)
    # ---- R-C14.11 the hard write halt must lie ABOVE the point at which the keyspace's strategy starts compacting L0: otherwise
    # the halt waits for a compaction the strategy will never choose
    cwh11 = ctx.fn("keyspace::Keyspace::check_write_halt", "R-C14.11")
    if cwh11:
        og11 = ctx.og(cwh11)
        lim = None
        for b, blk in enumerate(cwh11.blocks):
            if blk["t"]["k"] == "switch" and not blk["cleanup"]:
                cmp_ = A.compare_switch(cwh11, b, og11)
                if cmp_ and any(x.k == "call" and x.a[0].endswith("::l0_run_count") for x in A.walk(cmp_[1])):
                    lim = cmp_[2]
        ok11 = lim is not None and lim.k != "const"
        ctx.ob("R-C14.11", cwh11, "halt-threshold-follows-the-strategys-l0-threshold", ok11,
               "the halt threshold is derived from the keyspace's configuration" if ok11 else
               "the write halt is hard-wired to %s L0 runs while the point at which L0 is compacted is configurable (Leveled::with_l0_threshold): with a threshold above the halt the strategy never picks the compaction the halted writer waits for" % (A.tstr(lim) if lim is not None else "?"))

    # ---- R-C14.9 a worker leaves its loop only when it is told to (Close) or the queue is gone.  worker_tick answers Ok(true)
    # ("stop") on exactly those two edges; an Ok(true) anywhere else (no flush task to dequeue, a bounced compaction, the
    # ordinary end of a tick) shrinks the pool until nothing flushes or compacts any more and the write stalls never end.
    wt9 = ctx.fn("worker_pool::worker_tick", "R-C14.9")
    if wt9:
        stops = [b for b, blk in enumerate(wt9.blocks) if not blk["cleanup"] for st in blk["s"]
                 if st["p"]["l"] == 0 and st["rv"]["k"] == "agg" and st["rv"].get("variant") == "Ok" and any((o.get("const") or {}).get("val") is True for o in st["rv"]["ops"])]
        allowed = set()
        for b, blk in enumerate(wt9.blocks):
            if blk["cleanup"] or blk["t"]["k"] != "switch":
                continue
            tm, labels = A.switch_info(wt9, b)
            if tm.k == "discr" and any(x.k == "call" and x.a[0].endswith("Receiver::<T>::recv") for x in A.walk(tm)):
                for tg, ns in labels.items():
                    if ns == ["Err"] or ns == ["Close"]:
                        allowed.add(tg)
        other_arms = []
        for b, blk in enumerate(wt9.blocks):
            if blk["cleanup"] or blk["t"]["k"] != "switch":
                continue
            tm, labels = A.switch_info(wt9, b)
            if tm.k == "discr" and any(x.k == "call" and x.a[0].endswith("Receiver::<T>::recv") for x in A.walk(tm)):
                other_arms += [tg for tg, ns in labels.items() if ns and ns != ["Err"] and ns != ["Close"] and ns != ["Ok"]]
        bad = [b for b in stops if b not in allowed and any(b in A.reach(wt9, [a]) for a in other_arms)]
        ctx.ob("R-C14.9", wt9, "worker-stops-only-on-close-or-a-closed-queue", bool(stops) and bool(allowed) and not bad,
               "Ok(true) is answered only for WorkerMessage::Close and a closed queue" if (stops and allowed and not bad) else
               "worker_tick can answer Ok(true) (bb%s) while handling an ordinary message: the worker thread exits, the pool shrinks, and once no worker is left nothing flushes or compacts — writers wait in the stall loops forever" % bad[:2],
               wt9.loc(bad[0]) if bad else "")
        # ---- R-C14.10 every Compact message is executed by SOME worker: the "leave compactions to the others" bounce needs
        # pool_size > 1 AND this worker being one particular worker
        og9 = ctx.og(wt9)
        resend = [b for b, t in wt9.calls() if A.cname(t).endswith("Sender::<T>::send") and any(x.k == "agg" and "Compact" in str(x.a[0]) for x in A.walk(og9.of_operand(t["args"][1])))]
        ok10 = True
        detail10 = "no compaction bounce"
        if resend:
            conds = A.edge_conditions(wt9, resend[0]) if hasattr(A, "edge_conditions") else []
            gt1 = eq_id = False
            bounce_targets = []
            for sb, blk in enumerate(wt9.blocks):
                if blk["cleanup"] or blk["t"]["k"] != "switch" or not A.dominates(wt9, sb, resend[0]):
                    continue
                cmp_ = A.compare_switch(wt9, sb, og9)
                if not cmp_:
                    continue
                op, l, r_, tt, ft = cmp_
                on_true = any(resend[0] in A.reach(wt9, [x]) for x in tt) and not any(resend[0] in A.reach(wt9, [x], avoid=[sb]) for x in ft)
                if A.ends_with_field(l, "pool_size") and op == "Gt" and r_.k == "const" and tuple(r_.a) == ("int", 1) and on_true:
                    gt1 = True
                if A.ends_with_field(l, "worker_id") and op == "Eq" and r_.k == "const" and on_true:
                    eq_id = True
                    bounce_targets = list(tt)
            ok10 = gt1 and eq_id
            detail10 = "a Compact message is re-queued only when pool_size > 1 and by one particular worker" if ok10 else \
                "the compaction bounce is not limited to `pool_size > 1 && worker_id == <one id>` (pool_size>1: %s, one worker: %s): with some pool size every worker re-queues the Compact message and nobody compacts — L0 grows until writers are halted forever" % (gt1, eq_id)
        ctx.ob("R-C14.10", wt9, "some-worker-executes-a-compact-message", ok10, detail10, wt9.loc(resend[0]) if resend else "")
        if resend and ok10:
            rc = [b for b, t in wt9.calls() if A.cname(t).startswith("compaction::worker::run")]
            r_ = A.reach(wt9, bounce_targets, avoid=resend + rc + list(A.error_starts(wt9)))
            lost = [x for x in wt9.return_blocks() if x in r_]
            ctx.ob("R-C14.10", wt9, "a-bounced-compact-message-is-queued-again", not lost and bool(rc),
                   "the worker that leaves compactions to the others puts the message back before it returns" if (not lost and rc) else
                   "the bouncing worker can return without re-queuing the Compact message (and without compacting): the request is lost whenever that worker receives it",
                   wt9.loc(resend[0]))

    # ---- borrowed obligations (mechanisms owned by other properties that this property's verdict also rests on)
    # single-writer read-modify-write helpers are linearizable only if the snapshot is taken after the lock
    ctx.borrow("C08", ["R-C08.5"], "R-C14.8")

