"""C15 — journal records round-trip bit-exactly; damage is never misread (writer/reader codec agreement)."""
from .. import analysis as A
from .. import roles as R
from .. import codec as C

META = {
    "technique": "codec-sequence extraction over all success paths (writer vs reader, position by position) + tag-table agreement + origin terms",
    "explanation": (
        "R-C15.7: the Start marker's seqno takes part in the checksum (known finding: it does not). R-C15.8: a decode failure is taken for the torn tail only after a look at what follows (known finding: JournalReader::next truncates blindly). "
        "Decides agreement of the two sibling implementations of the journal format: (1) for each record kind the ordered "
        "primitive writes of Entry::encode_into / serialize_marker_item equal, in width and endianness, the ordered reads "
        "of the matching Entry::decode_from arm (Start u8 u32le u64le; Item u8 u8 Compression u64le u16le u32le u32le "
        "bytes bytes; End u8 u64le bytes[4]; Clear u8 u64le), and the length field that bounds each payload is the same "
        "position on both sides; (2) the Tag and FormatVersion tables agree between enum discriminants, TryFrom<u8> arms "
        "and From<..> for u8, unknown bytes map to an error; (3) decoding depends only on the bytes read: decode_from has no "
        "configuration input and decompresses by the decoded compression tag; the writer encodes the same compression "
        "value it compresses with, chosen by the threshold test on the value length; (4) every payload written between "
        "Start and End is fed to the hasher from the same buffer, End carries hasher.finish(), the reader re-hashes the "
        "re-encoded entries and resets its hasher only in the End arm; (5) the End arm compares the trailer with "
        "MAGIC_BYTES and fails with InvalidTrailer on the unequal edge."),
    "not_decided": [
        "bit-exact round trip for all byte strings (needs execution or a proof over lz4)",
        "that a single-byte alteration cannot collide in xxh3 or land in padding; cross-setting reads as behaviour",
    ],
    "assumptions": ["byteorder-lite read_*/write_* are inverse for equal width and endianness; lz4_flex decompress(compress(x)) = x"],
}

ENC = "journal::entry::Entry::encode_into"
DEC = "journal::entry::Entry::decode_from"
SMI = "journal::entry::serialize_marker_item"
KINDS = ("Start", "Item", "End", "Clear")


def variant_switch(fn, names):
    for b, blk in enumerate(fn.blocks):
        t = blk["t"]
        if t["k"] == "switch" and not blk["cleanup"]:
            vm = A.discr_variants(fn, t["d"])
            if vm and set(names) <= set(vm.values()):
                _, labels = A.switch_info(fn, b)
                out = {}
                for tg, ns in labels.items():
                    for n in ns:
                        out[n] = tg
                return b, out
    return None, {}


def uniq(seqs):
    seen = {}
    for s in seqs:
        seen.setdefault(C.shape(s), s)
    return list(seen.values())


def tryfrom_table(fn):
    """{u8 value: variant name} from a `match value { k => Ok(V) .. }` body; and whether the default arm errs"""
    table = {}
    default_err = False
    for b, blk in enumerate(fn.blocks):
        t = blk["t"]
        if t["k"] == "switch" and not blk["cleanup"] and A.op_place(t["d"]) and A.op_place(t["d"])["l"] == 1:
            for v, tg in t["vs"]:
                for st in fn.blocks[tg]["s"]:
                    rv = st["rv"]
                    if rv["k"] == "agg" and "adt" in rv and not rv["adt"].startswith("std::"):
                        table[v] = rv["variant"]
            for st in fn.blocks[t["else"]]["s"]:
                rv = st["rv"]
                if rv["k"] == "agg" and rv.get("variant") == "Err":
                    default_err = True
    return table, default_err


def has_lz4(fn):
    """does fn (de)compress at all?  Without the lz4 feature lsm_tree::CompressionType has the single variant None and
    a `match compression {..}` leaves no switch in MIR."""
    return any("lz4_flex" in A.cname(t) or "lz4_flex" in (t.get("callee") or "") for _, t in fn.calls())


def no_compression(ctx, fn):
    """the crate is built without its lz4 feature (cargo's --cfg feature set, recorded by the driver) and fn indeed
    neither compresses nor decompresses"""
    return "lz4" not in ctx.F.features and not has_lz4(fn)


def run(ctx):
    F = ctx.F
    enc = ctx.fn(ENC, "R-C15.1")
    dec = ctx.fn(DEC, "R-C15.1")
    smi = ctx.fn(SMI, "R-C15.1")
    if enc and dec and smi:
        _, earms = variant_switch(enc, KINDS)
        _, darms = variant_switch(dec, KINDS)
        pre = uniq(C.sequences(F, dec, [0], "r", stop=[b for b in [variant_switch(dec, KINDS)[0]] if b is not None]))
        pre_shape = C.shape(pre[0]) if len(pre) == 1 else None
        ctx.ob("R-C15.1", dec, "reads-tag-first", pre_shape == ("u8",), "decode_from reads exactly one u8 (the tag) before dispatching" if pre_shape == ("u8",) else "decode_from reads %s before the tag dispatch" % (pre_shape,))
        for kind in KINDS:
            if kind not in earms or kind not in darms:
                ctx.ob("R-C15.1", enc, "kind-%s-has-both-arms" % kind, False, "record kind %s lacks an encode or decode arm" % kind)
                continue
            ws = uniq(C.sequences(F, enc, [earms[kind]], "w", inline={SMI: "w"}))
            rs = uniq(C.sequences(F, dec, [darms[kind]], "r"))
            wshapes = {C.shape(s) for s in ws}
            rshapes = {("u8",) + C.shape(s) for s in rs}
            ctx.count_sites(sum(len(s) for s in ws) + sum(len(s) for s in rs))
            ok = len(wshapes) == 1 and wshapes == rshapes
            ctx.ob("R-C15.1", enc, "kind-%s-writer-equals-reader" % kind, ok,
                   "%s: writes %s == reads %s" % (kind, sorted(wshapes), sorted(rshapes)) if ok else "%s: writer emits %s but reader consumes %s — a record of this kind is misparsed" % (kind, sorted(wshapes), sorted(rshapes)))
            if ok and any(t.kind == "bytes" for t in ws[0]):
                # length-field agreement
                wfn = smi if kind == "Item" else enc
                wseq = uniq(C.sequences(F, smi, [0], "w"))[0] if kind == "Item" else ws[0]
                wref = C.length_refs(wfn, wseq, "w")
                wb = [(i, r) for i, r in enumerate(wref) if wseq[i].kind == "bytes"]
                # every reader path (e.g. both decompression arms) must use the same length fields
                rbs = set()
                for rseq in C.sequences(F, dec, [darms[kind]], "r"):
                    rref = C.length_refs(dec, rseq, "r")
                    rref = [None] + [(r + 1 if isinstance(r, int) else r) for r in rref]
                    rbs.add(tuple((i, r) for i, r in enumerate(rref) if i > 0 and rseq[i - 1].kind == "bytes"))
                rb = sorted(rbs)
                okl = len(rbs) == 1 and list(rb[0]) == wb and all(r is not None for _, r in wb)
                ctx.ob("R-C15.1", enc, "kind-%s-length-fields-bound-their-payloads" % kind, okl,
                       "%s: payload@pos/len@pos writer %s == reader %s" % (kind, wb, rb) if okl else "%s: the length field bounding a payload differs: writer %s reader %s (e.g. key/value lengths swapped)" % (kind, wb, rb))
        # End: the fixed trailer written is file::MAGIC_BYTES
        magic = tuple((F.consts.get("file::MAGIC_BYTES") or {}).get("bytes") or ())
        if "End" in earms:
            eog = ctx.og(enc)
            okm = False
            for b in A.reach(enc, [earms["End"]]):
                t = enc.term(b)
                if t["k"] == "call" and A.cname(t).endswith("::write_all") and len(t["args"]) > 1:
                    term = eog.of_operand(t["args"][1])
                    okm = any(x.k == "const" and ((x.a[0] == "bytes" and tuple(x.a[1]) == magic) or (x.a[0] == "def" and "MAGIC_BYTES" in str(x.a[1]))) for x in A.walk(term))
            ctx.ob("R-C15.1", enc, "end-trailer-is-magic-bytes", okm and bool(magic), "End writes file::MAGIC_BYTES %s as trailer" % (list(magic),) if okm else "End does not write file::MAGIC_BYTES as trailer")
        # value length (decompressed size) token: writer writes len(value) at the position the reader uses for the decompression target
        og = ctx.og(dec)
        for b, t in dec.calls():
            if A.cname(t).startswith("lsm_tree::Slice::builder_unzeroed"):
                n = og.of_operand(t["args"][0])
                srcs = [x for x in A.walk(n) if x.k == "call" and "read_u32" in x.a[0]]
                ctx.ob("R-C15.1", dec, "decompression-target-from-value-len-field", bool(srcs), "decompression buffer sized by a decoded u32 length field" if srcs else "decompression buffer is not sized from the record")

    # ---- R-C15.6 the decoder rejects on a relation between header fields only where the encoder guarantees its negation
    # (cross-check of siblings: serialize_marker_item establishes  value_len = len(value), on_disk_len = len(stored bytes),
    #  and stored bytes = value exactly in the CompressionType::None arm — nothing relates the two lengths under lz4)
    if dec:
        og = ctx.og(dec)
        sw, darms = variant_switch(dec, KINDS)
        reads = []
        if "Item" in darms:
            for seq in uniq(C.sequences(F, dec, [darms["Item"]], "r")):
                reads = [t.site for t in seq if t.kind not in ("bytes", "<back>")]
                break
        # positions in the Item arm after the tag: 0 value_type, 1 compression, 2 keyspace id, 3 key_len, 4 value_len, 5 on_disk_len
        GUARANTEED = {frozenset((4, 5)): ("None", "value_len == on_disk_value_len for uncompressed values")}
        nrel = 0
        for b, blk in enumerate(dec.blocks):
            if blk["t"]["k"] != "switch" or blk["cleanup"]:
                continue
            c = A.compare_switch(dec, b, og)
            if not c:
                continue

            def field_of(term):
                hits = {reads.index(x.site[1]) for x in A.walk(term) if x.k == "call" and x.site and x.site[0] == dec.id and x.site[1] in reads}
                return hits
            l, r = field_of(c[1]), field_of(c[2])
            if len(l) == 1 and len(r) == 1 and l != r:
                nrel += 1
                pair = frozenset((list(l)[0], list(r)[0]))
                g = GUARANTEED.get(pair)
                arm_ok = False
                if g:
                    conds = A.edge_conditions(dec, b)
                    arm_ok = any(t.k == "discr" and g[0] in labels and any(x.k == "call" and "Decode" in x.a[0] for x in A.walk(t)) for _, t, labels in conds)
                    # built without lz4, CompressionType has the single variant None: there is no arm to be in
                    arm_ok = (arm_ok or no_compression(ctx, dec)) and c[0] in ("Eq", "Ne")
                ctx.ob("R-C15.6", dec, "header-relation-%d-%d" % tuple(sorted(pair)), bool(g) and arm_ok,
                       "decoder tests %s between header fields %s: %s" % (c[0], sorted(pair), g[1]) if (g and arm_ok)
                       else "decoder decides (rejects, or decodes differently) on a relation (%s) between header fields %s that the encoder does not guarantee%s: records the encoder can produce (e.g. incompressible values whose lz4 output is as long as or longer than the input) would be refused or decoded to different bytes" % (
                           c[0], sorted(pair), "" if not g else " in this compression arm"), dec.loc(b))
        # ... and on a comparison of a decoded header field with a CONSTANT only where the encoder enforces the same bound
        # (it enforces none today: key length and value length are bounded by their field widths alone; journal files grow
        # past their 64 MiB pre-allocation, values up to 2^32 bytes are legal)
        def from_stream(term):
            return any(x.k == "call" and (C.PRIM.search(x.a[0]) or x.a[0].endswith("::decode_from") or "from_reader" in x.a[0]) for x in A.walk(term))
        bounds = []
        for b, blk in enumerate(dec.blocks):
            if blk["t"]["k"] != "switch" or blk["cleanup"]:
                continue
            c = A.compare_switch(dec, b, og)
            if not c:
                continue
            ls, rs_ = from_stream(c[1]), from_stream(c[2])
            if ls != rs_:
                # does one of the two edges build an explicit Err?
                errb = [x for x in A.reach(dec, list(c[3]) + list(c[4])) if any(st["p"]["l"] == 0 and not st["p"]["p"] and st["rv"]["k"] == "agg" and st["rv"].get("variant") == "Err" for st in dec.blocks[x]["s"])]
                only_one_side = [x for x in errb if (x in A.reach(dec, list(c[3]))) != (x in A.reach(dec, list(c[4])))]
                if only_one_side:
                    bounds.append((b, c))
        ctx.ob("R-C15.6", dec, "no-decoder-only-bounds", not bounds,
               "the decoder rejects no record because of a bound on a single header field that the encoder does not enforce" if not bounds
               else "the decoder rejects records whose header field exceeds a constant (%s %s %s) although the encoder writes such records: a committed record (e.g. a value larger than the bound) is taken for a torn tail, the journal is truncated there and everything after it is lost" % (
                   A.tstr(bounds[0][1][1])[:50], bounds[0][1][0], A.tstr(bounds[0][1][2])[:50]), dec.loc(bounds[0][0]) if bounds else "")
        ctx.ob("R-C15.6", dec, "header-relations-enumerated", nrel >= 1, "%d header-field relation test(s) found in the decoder, all matched against the encoder's guarantees" % nrel, nontrivial=False)

    # ---- R-C15.2 tag tables
    for adt, tf, ff in (("journal::entry::Tag", "<journal::entry::Tag as std::convert::TryFrom<u8>>::try_from", "journal::entry::<impl std::convert::From<journal::entry::Tag> for u8>::from"),
                        ("version::FormatVersion", "<version::FormatVersion as std::convert::TryFrom<u8>>::try_from", "version::<impl std::convert::From<version::FormatVersion> for u8>::from")):
        a = F.adts.get(adt)
        tfn = ctx.fn(tf, "R-C15.2")
        ffn = ctx.fn(ff, "R-C15.2")
        if not a or not tfn or not ffn:
            ctx.ob("R-C15.2", adt, "tables-present", False, "enum %s or one of its u8 conversions is missing" % adt, kind="anchor")
            continue
        variants = {v["n"] for v in a["variants"]}
        back, derr = tryfrom_table(tfn)
        # From<X> for u8: either `as u8` of the discriminant, or an explicit match
        fwd = {}
        body_cast = any(st["rv"]["k"] == "cast" for blk in ffn.blocks for st in blk["s"])
        if body_cast:
            fwd = {v["n"]: v["d"] for v in a["variants"]}
        else:
            sw, arms = variant_switch(ffn, list(variants))
            for vn, tg in arms.items():
                for st in ffn.blocks[tg]["s"]:
                    c = A.stmt_const(st)
                    if c and c[0] == "int":
                        fwd[vn] = c[1]
        inv = {v: k for k, v in fwd.items()}
        ok = inv == back and set(back.values()) == variants and derr
        ctx.ob("R-C15.2", tfn, "u8-tables-agree", ok,
               "%s: to-u8 %s is the inverse of from-u8 %s; unknown bytes are rejected" % (adt, fwd, back) if ok else "%s: to-u8 %s vs from-u8 %s (default arm errs=%s) — a written tag is read back as a different kind" % (adt, fwd, back, derr))

    # ---- R-C15.3 decode by tag, not by configuration
    if dec:
        ctx.ob("R-C15.3", dec, "decoder-has-no-configuration-input", dec.argc == 1, "decode_from(reader) takes only the byte source" if dec.argc == 1 else "decode_from takes %d parameters: decoding may depend on configuration" % dec.argc, nontrivial=False)
        sw, arms = variant_switch(dec, ("None",))
        ok = False
        if sw is not None:
            term, _ = A.switch_info(dec, sw)
            ok = term.k == "discr" and any(x.k == "call" and "coding::Decode" in x.a[0] or (x.k == "call" and x.a[0].endswith("::decode_from")) for x in A.walk(term.a))
        if sw is None and no_compression(ctx, dec):
            ok = True  # no compression compiled in (CompressionType = {None}): nothing is decompressed, nothing to switch on
        ctx.ob("R-C15.3", dec, "decompress-by-decoded-tag", ok, "the decompression branch switches on the CompressionType decoded from the record" if ok else "the decompression branch does not switch on the decoded compression tag")
    if smi:
        og = ctx.og(smi)
        e = [b for b, t in smi.calls() if "coding::Encode" in (t.get("callee") or "") or A.cname(t).endswith("Encode>::encode_into")]
        sw, arms = variant_switch(smi, ("None",))
        ok = False
        if e and sw is not None:
            recv = og.of_operand(smi.term(e[0])["args"][0])
            term, _ = A.switch_info(smi, sw)
            ok = recv.k == "param" and recv.a[0] == 6 and term.k == "discr" and term.a.k == "param" and term.a.a[0] == 6
        if e and sw is None and no_compression(ctx, smi):
            # no compression compiled in: the value is stored as given and the only representable tag is written
            recv = og.of_operand(smi.term(e[0])["args"][0])
            ok = recv.k == "param" and recv.a[0] == 6
        ctx.ob("R-C15.3", smi, "encodes-the-compression-it-applies", ok, "the compression tag written is the `compression` parameter the value is compressed with" if ok else "the compression tag written differs from the compression actually applied")
    for fid in (R.WRITER + "::write_raw", R.WRITER + "::write_batch"):
        fn = ctx.fn(fid, "R-C15.3")
        if not fn:
            continue
        og = ctx.og(fn)
        ok = False
        for b, t in fn.calls():
            if A.cname(t).startswith(SMI):
                comp = og.of_operand(t["args"][5])
                alts = A.alternatives(comp)
                has_cfg = any(A.ends_with_field(x, "compression") for x in alts)
                has_none = any((x.k == "agg" and x.a[0].endswith("CompressionType::None")) or (x.k == "const" and x.a[0] == "variant" and x.a[2] == "None") for x in alts)
                # the choice is made by comparing len(value) with the threshold
                sws = []
                for sb, blk in enumerate(fn.blocks):
                    if blk["t"]["k"] == "switch" and not blk["cleanup"]:
                        c = A.compare_switch(fn, sb, og)
                        if c and any(x.k == "field" and x.a[1] == "compression_threshold" for x in A.walk(c[1])) != any(x.k == "field" and x.a[1] == "compression_threshold" for x in A.walk(c[2])):
                            other = c[2] if any(x.k == "field" and x.a[1] == "compression_threshold" for x in A.walk(c[1])) else c[1]
                            if any(x.k == "call" and x.a[0].endswith("::len") for x in A.walk(other)):
                                sws.append(sb)
                ok = has_cfg and has_none and bool(sws)
                val = og.of_operand(t["args"][3])
        ctx.ob("R-C15.3", fn, "compression-chosen-by-threshold-on-value-len", ok, "compression := self.compression if value.len() passes the threshold else None" if ok else "per-item compression is not chosen from {configured, None} by the value-length threshold")

    # ---- R-C15.4 checksum covers what was written
    for fid in R.APPEND:
        fn = ctx.fn(fid, "R-C15.4")
        if not fn:
            continue
        og = ctx.og(fn)
        ws = [(b, t) for b, t in fn.calls() if A.cname(t).endswith("as std::io::Write>::write_all") and "BufWriter" in A.cname(t)]
        us = [(b, t) for b, t in fn.calls() if A.cname(t).endswith("Hasher>::update") or A.cname(t).endswith("Xxh3::update")]
        ok = bool(ws) and len(ws) == len(us)
        for (wb, wt) in ws:
            wk = A.tkey(og.of_operand(wt["args"][1]))
            pair = [ub for ub, ut in us if A.tkey(og.of_operand(ut["args"][1])) == wk and (A.dominates(fn, wb, ub) or A.dominates(fn, ub, wb))]
            # no buf.clear() between the write and the hash
            clears = [b for b, t in fn.calls() if A.cname(t).endswith("Vec::<T, A>::clear")]
            good = False
            for ub in pair:
                first, second = (wb, ub) if A.dominates(fn, wb, ub) else (ub, wb)
                between = A.reach_after(fn, first, avoid=[second])
                if not any(c in between and second in A.reach_after(fn, c) for c in clears):
                    good = True
            ok = ok and good
        ctx.ob("R-C15.4", fn, "every-payload-write-is-hashed", ok, "each item write_all(&self.buf) is paired with hasher.update(&self.buf) on the same buffer content" if ok else "an item is written to the journal without (or with a different buffer than) being hashed: the End checksum would not cover it")
    br = ctx.fn("<journal::batch_reader::JournalBatchReader as std::iter::Iterator>::next", "R-C15.4")
    if br:
        og = ctx.og(br)
        resets = A.field_assigns(br, "checksum_builder")
        sw, arms = variant_switch(br, KINDS)
        end_region = A.reach(br, [arms["End"]], avoid=[b for b, t in br.calls() if A.cname(t) == "<journal::reader::JournalReader as std::iter::Iterator>::next"]) if "End" in arms else set()
        others = set()
        for k in ("Start", "Item", "Clear"):
            if k in arms:
                others |= A.reach(br, [arms[k]], avoid=[b for b, t in br.calls() if A.cname(t) == "<journal::reader::JournalReader as std::iter::Iterator>::next"])
        ok = len(resets) >= 1 and all(b in end_region and b not in others for b, i, st in resets)
        ctx.ob("R-C15.4", br, "hasher-reset-only-after-End", ok, "checksum_builder is replaced only in the End arm" if ok else "the running checksum is reset outside the End arm (%d sites)" % len(resets))
        # update() is fed the re-encoded bytes of the entry just read
        okh = 0
        for b, t in br.calls():
            if A.cname(t).endswith("Hasher>::update") or A.cname(t).endswith("Xxh3::update"):
                buf = t["args"][1]
                bl = A.op_place(buf)
                # the buffer local was filled by Entry::encode_into just before
                encs = [bb for bb, tt in br.calls() if A.cname(tt).startswith(ENC) and A.dominates(br, bb, b)]
                if encs:
                    okh += 1
        ctx.ob("R-C15.4", br, "reader-hashes-reencoded-entries", okh >= 2, "%d hasher updates are fed by Entry::encode_into of the entry read" % okh if okh >= 2 else "reader does not hash the re-encoded Item/Clear entries (%d of 2)" % okh)

    # ---- R-C15.5 trailer
    if dec:
        og = ctx.og(dec)
        inv = [b for b, blk in enumerate(dec.blocks) if not blk["cleanup"] for st in blk["s"] if st["rv"]["k"] == "agg" and st["rv"].get("variant") == "InvalidTrailer"]
        endok = [b for b, blk in enumerate(dec.blocks) if not blk["cleanup"] for st in blk["s"] if st["rv"]["k"] == "agg" and st["rv"].get("adt") == "journal::entry::Entry" and st["rv"].get("variant") == "End"]
        ok = False
        detail = "decode_from has no InvalidTrailer path"
        if inv and endok:
            magic = tuple((F.consts.get("file::MAGIC_BYTES") or {}).get("bytes") or ())
            cmpb = [b for b, t in dec.calls() if (t.get("callee") or "").startswith("std::cmp::PartialEq::") and any(
                (x.k == "const" and ((x.a[0] == "def" and "MAGIC_BYTES" in str(x.a[1])) or (x.a[0] == "bytes" and magic and tuple(x.a[1]) == magic)))
                for a in t["args"] for x in A.walk(og.of_operand(a)))]
            if cmpb:
                is_ne = A.cname(dec.term(cmpb[0])).endswith("::ne")
                sw = A.switch_after_call(dec, cmpb[0])
                if sw is not None:
                    zero, true_t = A.bool_edges(dec, sw)
                    unequal = true_t if is_ne else zero
                    equal = zero if is_ne else true_t
                    ok = all(b in A.reach(dec, unequal) for b in inv) and not any(b in A.reach(dec, unequal) for b in endok) and all(b in A.reach(dec, equal) for b in endok)
                    detail = "trailer != MAGIC_BYTES -> InvalidTrailer; Entry::End only on the equal edge" if ok else "trailer comparison does not guard Entry::End (a half-written End marker would be accepted)"
            else:
                detail = "no comparison of the trailer bytes with MAGIC_BYTES"
        ctx.ob("R-C15.5", dec, "trailer-verified", ok, detail)
        # the bytes compared are the ones read
        rx = [b for b, t in dec.calls() if A.cname(t).endswith("::read_exact") or (t.get("callee") or "").endswith("io::Read::read_exact")]
        ctx.ob("R-C15.5", dec, "trailer-bytes-are-read", bool(rx), "trailer is read with read_exact into a fixed-size buffer" if rx else "trailer bytes are never read", nontrivial=False)

    # ---- R-C15.7 what recovery ACTS on is covered by the checksum: the batch's seqno decides the order in which the record is
    # applied relative to everything else (and whether replay skips it).  Some hashing has to see it: in the Start arm, in the
    # End arm before `finish`, or as an update argument built from batch_seqno.
    if br:
        og = ctx.og(br)
        nxt = [b for b, t in br.calls() if A.cname(t) == "<journal::reader::JournalReader as std::iter::Iterator>::next"]
        sw, arms = variant_switch(br, KINDS)
        ups = [(b, t) for b, t in br.calls() if A.cname(t).endswith("Hasher>::update") or A.cname(t).endswith("Xxh3::update")]
        fin = [b for b, t in br.calls() if A.cname(t).endswith("Hasher>::finish") or A.cname(t).endswith("Xxh3::finish") or A.cname(t).endswith("::digest")]
        start_region = A.reach(br, [arms["Start"]], avoid=nxt) if "Start" in arms else set()
        end_region = A.reach(br, [arms["End"]], avoid=nxt + fin) if "End" in arms else set()
        covered = [b for b, t in ups if b in start_region or b in end_region or any(
            (x.k == "field" and x.a[1] in ("batch_seqno", "seqno")) for x in A.walk(og.of_operand(t["args"][1])))]
        ctx.ob("R-C15.7", br, "batch-seqno-is-covered-by-the-checksum", bool(covered) and bool(ups) and "Start" in arms,
               "the Start marker's fields take part in the checksum (bb%s)" % covered[:2] if covered else
               "the checksum is computed over the re-encoded Item/Clear entries only: the Start marker's seqno is not covered, so an altered seqno is accepted — the record is then applied in a different place of the history (a state no prefix of the commit history ever had, or a deleted key resurrected)")
        ctx.floor("R-C15.7", "hasher updates in the batch reader", ups, 2)

    # ---- R-C15.8 a decode failure is taken for the torn tail only after looking at what follows.  JournalReader::next answers a
    # failed decode by cutting the file at the last good position and ending the iteration.  That is right for the tail a crash
    # leaves; a damaged record in the MIDDLE of a journal (or in a sealed journal, which has no torn tail) is followed by complete
    # records, which are then thrown away while tables / later journals keep their effects.  Deciding between the two needs a look
    # at the bytes after the failure (or at the file length) before truncating.
    jr = ctx.fn("<journal::reader::JournalReader as std::iter::Iterator>::next", "R-C15.8")
    if jr:
        dec_b = R.call_blocks(jr, ("journal::entry::Entry::decode_from",))
        ok = False
        detail = "JournalReader::next does not call Entry::decode_from"
        if dec_b:
            rf = A.result_flow(jr, dec_b[0])
            errb = list(rf.err_blocks)
            if not errb:
                # matched with `match`: the Err arm is the switch target labelled Err
                s_ = jr.succs(dec_b[0])[0]
                term_, labels = A.switch_info(jr, s_) if jr.term(s_)["k"] == "switch" else (None, {})
                errb = [tg for tg, ns in labels.items() if "Err" in ns]
            trunc = [b for b, t in jr.calls() if ctx.cg.reaches(A.cname(t), {"std::fs::File::set_len"}) or A.cname(t) == "std::fs::File::set_len"]
            LOOK = ("std::io::Read::", "std::io::BufRead::", "as std::io::Read>::", "as std::io::BufRead>::", "std::fs::File::metadata", "std::fs::metadata", "::seek")
            looks = [b for b, t in jr.calls() if any(k in A.cname(t) for k in LOOK) and not A.cname(t).endswith("stream_position")]
            for b, t in jr.calls():
                n = A.cname(t)
                if n in F.fns and n != "journal::entry::Entry::decode_from" and any(any(k in A.cname(tt) for k in LOOK) and not A.cname(tt).endswith("stream_position") for _, tt in F.fns[n].calls()):
                    looks.append(b)
            blind = [tb for tb in trunc if tb in A.reach(jr, errb, avoid=looks)]
            ok = bool(errb) and bool(trunc) and not blind
            detail = "on the decode-failure edge the reader inspects the remainder before it truncates" if ok else \
                "on the decode-failure edge the file is cut at the last good position (bb%s) without a look at what follows: a damaged record in the middle of a journal, or anywhere in a sealed journal, silently ends the journal there — the complete records after it are discarded while flushed tables and later journals keep their effects (not a prefix of the commit history)" % blind[:2]
            if not trunc:
                ok, detail = True, "the reader no longer truncates on a decode failure"
        ctx.ob("R-C15.8", jr, "decode-failure-is-the-tail-only-after-looking-at-what-follows", ok, detail)

    # ---- cross-cutting disciplines (rules/discipline.py)
    from .. import discipline as D
    # codec and reader errors surface
    D.error_discipline(ctx, "R-C15.11", scope=lambda f: f.startswith(("journal::entry::", "<journal::", "journal::reader", "journal::batch_reader", "journal::writer::")))

    # ---- R-C15.14 what is stored under a compression tag is that codec's output: inside the Lz4 arm of the item encoder
    #      every payload value comes from lz4_flex::compress (the decoder decompresses whatever carries the tag)
    payload_matches_tag(ctx, "R-C15.14")

    # ---- R-C15.15 typestate of the writer's scratch buffer: whatever is written to the file or fed to the checksum from
    #      `self.buf` is exactly ONE freshly encoded record (cleared, then one encode) — stale bytes of the previous
    #      record (the End marker stays in the buffer) must never be written or hashed again
    scratch_buffer_typestate(ctx, "R-C15.15")

    # ---- borrowed obligations (mechanisms owned by other properties that this property's verdict also rests on)
    # a decoded record comes back into the keyspace whose id it carries (replay looks the keyspace up per record)
    ctx.borrow("C04", ["R-C04.14"], "R-C15.13")
    # a decoded record is replayed as the operation it encodes (tombstone kinds are not interchangeable)
    ctx.borrow("C04", ["R-C04.1"], "R-C15.12")
    # items of a batch keep their journal order on replay (same bytes per key)
    ctx.borrow("C04", ["R-C04.8"], "R-C15.9")
    # damage handling: fatal only after a look
    ctx.borrow("C03", ["R-C03.3"], "R-C15.10", only_instances=["decode-failure-is-fatal"])



def payload_matches_tag(ctx, rule):
    fn = ctx.fn("journal::entry::serialize_marker_item", rule)
    if not fn:
        return
    og = ctx.og(fn)
    sws = []
    for b, blk in enumerate(fn.blocks):
        if blk["cleanup"] or blk["t"]["k"] != "switch":
            continue
        cond, labels = A.switch_info(fn, b)
        if cond is not None and cond.k == "discr" and any("Lz4" in ns for ns in labels.values()) and any(x.k == "param" for x in A.walk(cond)):
            sws.append((b, labels))
    if not sws:
        # built without the lz4 feature there is a single arm and nothing to decide
        has_lz4 = any("lz4_flex" in A.cname(t) for _, t in fn.calls())
        ctx.ob(rule, fn, "compression-arm-switch-present", not has_lz4, "no Lz4 arm in this build" if not has_lz4 else
               "serialize_marker_item calls lz4 but does not switch on its compression parameter", kind="anchor" if has_lz4 else "rule", nontrivial=False)
        return
    b, labels = sws[0]
    lz = [tg for tg, ns in labels.items() if "Lz4" in ns]
    other = [tg for tg, ns in labels.items() if ns and "Lz4" not in ns]
    region = A.reach(fn, lz) - A.reach(fn, other)
    comp = [x for x in region if fn.term(x)["k"] == "call" and A.cname(fn.term(x)).startswith("lz4_flex::compress")]
    raw = []
    n = 0
    for x in sorted(region):
        for st in fn.blocks[x]["s"]:
            if st["p"]["p"] or "Cow<" not in fn.local_ty(st["p"]["l"]):
                continue
            n += 1
            t = og.of_rvalue(st["rv"], site=x) if hasattr(og, "of_rvalue") else None
            if t is None or not any(y.k == "call" and y.a[0].startswith("lz4_flex::compress") for y in A.walk(t)):
                raw.append(fn.loc(x))
    ok = bool(comp) and n >= 1 and not raw
    ctx.ob(rule, fn, "lz4-tagged-payload-is-always-the-compressed-bytes", ok,
           "inside the Lz4 arm the payload is lz4_flex::compress(value) on every path (%d payload assignment(s))" % n if ok else
           "inside the Lz4 arm a payload is built that is not the output of lz4_flex::compress (at %s; compress calls: %d): the record carries the Lz4 tag, the decoder decompresses it and fails — taken for a torn tail, the journal is cut there" % (raw[:2], len(comp)),
           fn.loc(lz[0]) if lz else "")


def scratch_buffer_typestate(ctx, rule):
    F = ctx.F
    W = "journal::writer::Writer::"
    HELPERS = (W + "write_start", W + "write_end")
    nsites = 0
    for fid, fn in sorted(F.fns.items()):
        if not fid.startswith(W) or fn.kind == "closure":
            continue
        og = ctx.og(fn)

        def is_buf(a):
            t = og.of_operand(a)
            return A.tstr(t).endswith("P1(self).buf")

        touches = [b for b, t in fn.calls() if any(is_buf(a) for a in t["args"])] + [b for b, t in fn.calls() if A.cname(t) in HELPERS]
        if not touches:
            continue
        entry = "E" if fid in HELPERS else "U"   # the helpers are entered with an empty buffer: every caller is checked below
        state = {0: entry}
        work = [0]
        req = {}   # block -> (what, wanted, seen states)
        while work:
            b = work.pop()
            st = state[b]
            t = fn.term(b)
            out = st
            if t["k"] == "call":
                n = A.cname(t)
                bufargs = [i for i, a in enumerate(t["args"]) if is_buf(a)]
                if n in HELPERS:
                    req.setdefault(b, ("%s is entered with an empty buffer" % n.rsplit("::", 1)[-1], "E", set()))[2].add(st)
                    out = "1"
                elif bufargs:
                    leaf = n.rsplit("::", 1)[-1]
                    if leaf == "clear" and "Vec" in n:
                        out = "E"
                    elif leaf == "encode_into" or n.endswith("serialize_marker_item"):
                        out = "1" if st == "E" else "D"
                    elif leaf in ("write_all", "write", "update"):
                        req.setdefault(b, ("%s(&self.buf) sees exactly one fresh record" % leaf, "1", set()))[2].add(st)
                    elif leaf in ("len", "is_empty", "deref", "as_slice", "as_ref", "capacity"):
                        pass
                    else:
                        out = "D"   # an operation on the buffer this rule does not know
            for s_ in fn.succs(b):
                if fn.blocks[s_]["cleanup"]:
                    continue
                new = out if s_ not in state else (state[s_] if state[s_] == out else "D")
                if state.get(s_) != new:
                    state[s_] = new
                    work.append(s_)
        for b, (what, want, seen) in sorted(req.items()):
            # (states are re-read after the fixpoint)
            cur = state.get(b)
            nsites += 1
            ok = cur == want
            ctx.ob(rule, fn, "%s#bb-order-%d" % (what.split("(")[0].split(" ")[0], sorted(req).index(b) + 1), ok,
                   what if ok else "%s — but the buffer can hold %s there: bytes of an earlier record are written / hashed again, or a record is lost" % (
                       what, {"U": "whatever the previous call left in it", "E": "nothing", "D": "more than one record (or stale bytes)", "1": "one record"}[cur]),
                   fn.loc(b))
    ctx.floor(rule, "scratch-buffer uses checked", nsites, 14)
