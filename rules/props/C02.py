"""C02 — acknowledged writes survive a process crash, in commit order (write-ahead + recovery order clauses)."""
from .. import analysis as A
from .. import roles as R
from .. import fs as FS

META = {
    "technique": "must-pass-through on a configuration-specialised MIR CFG + dominance chains + who-may-call table",
    "explanation": (
        "R-C02.9: the default durability — every construction of a WriteBatch/BaseTransaction installs Some(..) under automatic journal persist (the assumption the pruned CFG of R-C02.1 rests on), through crate-private constructors and their callers. R-C02.10: a crash during the very first open leaves a directory that can be opened (repeatable create-new steps, complete-before-visible version marker; two known findings). "
        "Decides the structural write-ahead and recovery-order conditions: (1) in every write entry point, on the CFG "
        "specialised to the default persist configuration, the journal append dominates every memtable apply, every path "
        "append->apply passes Writer::persist, and every non-error path from the append to a return passes the apply and "
        "the publish; (2) the default durability Some(Buffer) is wired into batches and both transaction kinds on the "
        "!manual_journal_persist edge and forwarded to the batch; (3) Writer::persist flushes the BufWriter whenever the "
        "dirty flag is set, every append sets the flag before its first write and it is cleared only after a successful "
        "flush; (4) Database::recover runs version check, lock, journal recovery, keyspace recovery, sealed journals, "
        "active journal, visible-seqno restore and worker start in that order, journals sorted ascending with the last as "
        "active; (5) only the tabled functions may create, truncate, open-for-write or delete files."),
    "not_decided": [
        "that the recovered state is a prefix for a crash inside any syscall (crash-point enumeration)",
        "torn-write behaviour, flush/compaction crash atomicity inside lsm-tree",
        "interaction of sealed-journal skipping with table contents",
    ],
    "assumptions": [
        "BufWriter::flush hands all buffered bytes to the OS; a process crash does not lose OS-buffered bytes",
        "lsm-tree memtable apply is not visible to recovery (only journal + tables are)",
    ],
}


def dirty_flag_rules(ctx, rule):
    """persist flushes a dirty buffer; every append marks the buffer dirty first; the flag is cleared only after a successful flush"""
    F = ctx.F
    # ---- R-C02.3 persist reaches the OS
    wp = ctx.fn(R.PERSIST, rule)
    if wp:
        pruned = A.prune_edges(wp, assume_field={"is_buffer_dirty": True})
        fl = [b for b, t in wp.calls() if A.cname(t).endswith("as std::io::Write>::flush") and "BufWriter" in A.cname(t)]
        ctx.floor(rule, "BufWriter::flush in Writer::persist", fl, 1)
        if fl:
            errs = A.err_region(wp, fl)
            r = A.reach(wp, [0], avoid=fl, pruned=pruned)
            rets = [x for x in wp.return_blocks() if x in r]
            ctx.ob(rule, wp, "dirty-buffer-is-flushed", not rets,
                   "with is_buffer_dirty set, every path through persist passes BufWriter::flush" if not rets else "persist can return with a dirty buffer without flushing it")
            clears = [(b, st) for b, i, st in A.field_assigns(wp, "is_buffer_dirty") if A.stmt_const(st) == ("bool", False)]
            rf = A.result_flow(wp, fl[0])
            ok = bool(clears) and all(any(A.dominates(wp, okb, b) for okb in rf.ok_blocks) for b, _ in clears)
            ctx.ob(rule, wp, "dirty-flag-cleared-only-after-successful-flush", ok,
                   "is_buffer_dirty := false only on the Ok edge of flush" if ok else "is_buffer_dirty is cleared on a path that did not successfully flush (a later persist would skip the flush)")
    for fid in R.APPEND:
        fn = ctx.fn(fid, rule)
        if not fn:
            continue
        sets = [(b, i) for b, i, st in A.field_assigns(fn, "is_buffer_dirty") if A.stmt_const(st) == ("bool", True)]
        writes = A.blocks_calling(F, ctx.cg, fn, {"<std::io::BufWriter<std::fs::File> as std::io::Write>::write_all", "<std::io::BufWriter<W> as std::io::Write>::write_all"})
        writes = [b for b in writes if "BufWriter" in (fn.term(b).get("full") or "") or A.cname(fn.term(b)) in (R.WRITER + "::write_start", R.WRITER + "::write_end")]
        ok = bool(sets) and bool(writes) and all(any(A.dominates(fn, sb, w) for sb, _ in sets) for w in writes)
        ctx.ob(rule, fn, "marks-buffer-dirty-before-writing", ok,
               "is_buffer_dirty := true dominates all %d buffered writes" % len(writes) if ok else "a buffered journal write is not preceded by is_buffer_dirty := true (persist would skip the flush): sets=%s writes=%s" % (sets, writes))
    for fid in F.fns:
        fn = F.fns[fid]
        for b, i, st in A.field_assigns(fn, "is_buffer_dirty"):
            if fid not in R.APPEND + (R.PERSIST,):
                ctx.ob(rule, fn, "foreign-write-to-dirty-flag", False, "is_buffer_dirty written outside the append primitives / persist", fn.loc(b))



def durability_plumbing(ctx, rule):
    """the requested durability level travels unchanged from the public setters to the batch that is committed (shared with C09)"""
    bt = ctx.fn("tx::write_tx::BaseTransaction::commit", rule)
    if bt:
        og = ctx.og(bt)
        ok = False
        for b, t in bt.calls():
            if A.cname(t) == "batch::WriteBatch::durability":
                term = og.of_operand(t["args"][1])
                ok = any(A.ends_with_field(x, "durability") and (A.access_path(x) or ("",))[0] == "P1" for x in A.alternatives(term))
        ctx.ob(rule, bt, "transaction-durability-forwarded-to-batch", ok,
               "BaseTransaction::commit builds its batch with durability(self.durability)" if ok else "BaseTransaction::commit does not forward self.durability to the batch")
    for fid in ("batch::WriteBatch::durability", "tx::write_tx::BaseTransaction::durability"):
        fn = ctx.fn(fid, rule)
        if fn:
            asg = A.field_assigns(fn, "durability")
            og = ctx.og(fn)
            ok = any(og.of_rvalue(st["rv"]).k == "param" and og.of_rvalue(st["rv"]).a[0] == 2 for _, _, st in asg)
            ctx.ob(rule, fn, "setter-stores-parameter", ok, "durability setter stores its `mode` parameter" if ok else "durability setter does not store its parameter")
    for fid in ("tx::single_writer::write_tx::WriteTransaction::<'tx>::durability", "tx::optimistic::write_tx::WriteTransaction::durability"):
        fn = ctx.fn(fid, rule)
        if fn:
            og = ctx.og(fn)
            ok = False
            for b, t in fn.calls():
                if A.cname(t) == "tx::write_tx::BaseTransaction::durability":
                    term = og.of_operand(t["args"][1])
                    ok = term.k == "param" and term.a[0] == 2
            ctx.ob(rule, fn, "setter-forwards-to-inner", ok, "transaction durability setter forwards `mode` to the inner BaseTransaction" if ok else "setter does not forward its parameter")


def run(ctx):
    F = ctx.F
    entries = R.write_entries(ctx)
    ctx.floor("R-C02.1", "write entry points", entries, 5)
    names = {f.id for f in entries}
    for e in R.WRITE_ENTRY_EXPECTED:
        if e not in names:
            ctx.fn(e, "R-C02.1")

    # ---- R-C02.1 write-ahead order (default persist configuration)
    n_paths = 0
    for fn in entries:
        pruned = A.prune_edges(fn, **R.DEFAULT_CFG)
        ab = R.call_blocks(fn, R.APPEND)
        pb = R.call_blocks(fn, (R.PERSIST,))
        apply_b = R.apply_blocks(fn)
        pub = R.call_blocks(fn, (R.PUBLISH,))
        if len(ab) != 1:
            ctx.ob("R-C02.1", fn, "one-append", False, "expected exactly one journal append call, found %d" % len(ab))
            continue
        a = ab[0]
        if not apply_b or not pub:
            ctx.ob("R-C02.1", fn, "apply-and-publish-present", False, "entry point lacks a tree apply (%d) or publish (%d) call" % (len(apply_b), len(pub)))
            continue
        # (a) append dominates every apply
        bad = [x for x in apply_b if not A.dominates(fn, a, x, pruned)]
        n_paths += 1
        ctx.ob("R-C02.1", fn, "append-before-apply", not bad,
               "journal append %s every memtable apply" % ("dominates" if not bad else "does NOT dominate (apply at %s can run without/before the append)" % fn.loc(bad[0])), fn.loc(a))
        # (b) every path append -> apply passes persist (default configuration)
        r = A.reach_after(fn, a, avoid=pb, pruned=pruned)
        leak = [x for x in apply_b if x in r]
        n_paths += 1
        detail = "with automatic journal persist, every path append->apply passes Writer::persist"
        if leak:
            path = A.find_path(fn, fn.succs(a), leak, avoid=pb, pruned=pruned)
            detail = "with automatic journal persist (manual_journal_persist=false / durability=Some), the apply at %s is reachable from the append without passing Writer::persist: the write is acknowledged while still in the user-space buffer; path bb%s" % (
                fn.loc(leak[0]), "->bb".join(map(str, path or [])))
        ctx.ob("R-C02.1", fn, "persist-between-append-and-apply", not leak and bool(pb), detail if pb else "no Writer::persist call at all", fn.loc(a))
        # (c) non-error paths from the append to a return pass apply and publish
        err_starts = A.err_region(fn, ab + pb + [x for x in apply_b if "Result" in fn.local_ty(fn.term(x)["dest"]["l"])])
        in_loop = [x for x in apply_b if A.in_cycle(fn, x, pruned)]
        for role, blocks in (("apply", apply_b), ("publish", pub)):
            if role == "apply" and in_loop:
                # batch: the apply sits in the per-item loop (zero iterations is a CFG path); require the loop to lie
                # between append and publish and to iterate over the journaled items
                ok = all(A.dominates(fn, a, x, pruned) for x in apply_b) and all(any(p in A.reach_after(fn, x, pruned=pruned) for p in pub) for x in apply_b) \
                    and not any(x in A.reach_after(fn, p, pruned=pruned) for p in pub for x in apply_b)
                n_paths += 1
                ctx.ob("R-C02.1", fn, "apply-loop-between-append-and-publish", ok,
                       "per-item apply loop lies %s the append and the publish" % ("between" if ok else "NOT between"), fn.loc(apply_b[0]))
                continue
            r = A.reach_after(fn, a, avoid=list(blocks) + err_starts, pruned=pruned)
            rets = [x for x in fn.return_blocks() if x in r]
            n_paths += 1
            detail = "every non-error path from the append to `return` passes the %s" % role
            if rets:
                path = A.find_path(fn, fn.succs(a), rets, avoid=list(blocks) + err_starts, pruned=pruned)
                detail = "a success path from the journal append reaches `return` without the %s: bb%s" % (role, "->bb".join(map(str, path or [])))
            ctx.ob("R-C02.1", fn, "%s-on-all-success-paths" % role, not rets, detail, fn.loc(a))
    ctx.floor("R-C02.1", "path obligations", n_paths, 20)

    # ---- R-C02.2 default mode is wired
    for fid in ("db::Database::batch", "tx::single_writer::TxDatabase::write_tx", "tx::optimistic::OptimisticTxDatabase::write_tx"):
        fn = ctx.fn(fid, "R-C02.2")
        if not fn:
            continue
        pruned = A.prune_edges(fn, assume_field={"manual_journal_persist": False})
        og = ctx.og(fn)
        good = []
        for b, t in fn.calls():
            if A.cname(t).endswith("::durability") and len(t["args"]) >= 2:
                term = og.of_operand(t["args"][1])
                vals = A.variants_in(term, "PersistMode")
                some = any(x.k == "agg" and x.a[0].endswith("Option::Some") for x in A.walk(term))
                if some and vals:
                    good.append(b)
        live = A.live_blocks(fn, pruned)
        r = A.reach(fn, [0], avoid=good, pruned=pruned)
        rets = [x for x in fn.return_blocks() if x in r and x in live]
        # error returns (lock acquisition failed) are fine: only Ok paths matter -> require the durability call to dominate Ok construction
        okret = []
        for x in rets:
            # a return that is reachable without durability: acceptable only if it is an error path (from_residual)
            pre = A.reach(fn, [0], avoid=good, pruned=pruned)
            resid = [bb for bb in pre if fn.term(bb)["k"] == "call" and A.cname(fn.term(bb)).endswith("::from_residual")]
            path_wo_resid = A.find_path(fn, [0], [x], avoid=good + resid, pruned=pruned)
            if path_wo_resid:
                okret.append(path_wo_resid)
        ctx.ob("R-C02.2", fn, "default-durability-on-auto-persist-edge", bool(good) and not okret,
               "on the !manual_journal_persist edge every success path sets durability(Some(PersistMode::*))" if (good and not okret)
               else "with automatic journal persist a success path leaves the batch/transaction without a durability level (acknowledged writes would stay in the user-space buffer): bb%s" % ("->bb".join(map(str, okret[0])) if okret else "no durability(Some(..)) call"))
    durability_plumbing(ctx, "R-C02.2")

    dirty_flag_rules(ctx, "R-C02.3")

    # ---- R-C02.4 recovery order
    rec = ctx.fn("db::Database::recover", "R-C02.4")
    if rec:
        stages = [("check_version", ("db::Database::check_version",), True),
                  ("lock", ("locked_file::LockedFileGuard::try_acquire",), True),
                  ("journal-recover", ("journal::Journal::recover",), True),
                  ("recover_keyspaces", ("recovery::recover_keyspaces",), True),
                  ("recover_sealed_memtables", ("recovery::recover_sealed_memtables",), True),
                  ("active-journal-replay", ("journal::Journal::get_reader",), False),
                  ("visible-seqno-restore", ("snapshot_tracker::SnapshotTracker::set",), True),
                  ("worker-start", ("worker_pool::WorkerPool::start",), True)]
        blocks = {}
        for name, callees, _ in stages:
            bs = A.blocks_calling(F, ctx.cg, rec, set(callees), transitive=False)
            if not bs:
                ctx.ob("R-C02.4", rec, "stage-%s-present" % name, False, "recovery stage `%s` (%s) not found in Database::recover" % (name, callees[0]))
            blocks[name] = bs
        for (n1, _, must1), (n2, _, must2) in zip(stages, stages[1:]):
            if not blocks[n1] or not blocks[n2]:
                continue
            a, b = blocks[n1][0], blocks[n2][0]
            back = a in A.reach_after(rec, b)
            ok = not back and b in A.reach_after(rec, a)
            if must1 and must2:
                ok = ok and A.dominates(rec, a, b)
            elif must1:
                ok = ok and A.dominates(rec, a, b)
            ctx.ob("R-C02.4", rec, "%s-before-%s" % (n1, n2), ok,
                   "%s %s %s" % (n1, "precedes" if ok else "does NOT strictly precede", n2), rec.loc(b))
        # Ok(db) only after the worker start
        if blocks.get("worker-start"):
            w = blocks["worker-start"][0]
            oks = [b for b, blk in enumerate(rec.blocks) if not blk["cleanup"] for st in blk["s"]
                   if st["rv"]["k"] == "agg" and st["rv"].get("variant") == "Ok" and st["p"]["l"] == 0]
            ok = bool(oks) and all(A.dominates(rec, w, b) for b in oks)
            ctx.ob("R-C02.4", rec, "ok-only-after-all-stages", ok, "Ok(db) is constructed only after the last recovery stage" if ok else "Ok(db) can be returned before recovery finished")
    rj = ctx.fn("journal::recovery::recover_journals", "R-C02.4")
    if rj:
        sorts = [b for b, t in rj.calls() if "sort_by_key" in A.cname(t) or A.cname(t).endswith("::sort") or "sort_unstable" in A.cname(t)]
        pops = [b for b, t in rj.calls() if A.cname(t).endswith("Vec::<T, A>::pop")]
        ok = bool(sorts) and bool(pops) and all(A.dominates(rj, sorts[0], p) for p in pops)
        asc = True
        detail_key = ""
        if sorts:
            cl = A.closure_of_operand(rj, rj.term(sorts[0])["args"][1]) if len(rj.term(sorts[0])["args"]) > 1 else None
            cf = F.fns.get(cl) if cl else None
            if cf:
                og = A.Origins(cf)
                term = og.of_local(0)
                detail_key = A.tstr(term)
                # ascending by id: the key is the tuple's field 0, not wrapped in Reverse / negated
                asc = any(x.k == "field" and x.a[1] == "0" for x in A.walk(term)) and not any(
                    (x.k == "agg" and "Reverse" in x.a[0]) or (x.k == "un") or (x.k == "bin") for x in A.walk(term))
            else:
                asc = False
        ctx.ob("R-C02.4", rj, "journals-ascending-last-is-active", ok and asc,
               "fragments sorted by key %s before pop() picks the active journal" % detail_key if (ok and asc) else "journal fragments are not sorted ascending by id before the last is taken as active (key=%s)" % detail_key)
    rs = ctx.fn("recovery::recover_sealed_memtables", "R-C02.4")
    if rs:
        rev = [b for b, t in rs.calls() if A.cname(t).endswith("::rev") or "sort" in A.cname(t).rsplit("::", 1)[-1]]
        ctx.ob("R-C02.4", rs, "sealed-journals-in-given-order", not rev,
               "sealed journals are replayed in the (ascending) order they were handed in" if not rev else "sealed journal order is changed before replay")
        if rec:
            og = ctx.og(rec)
            for b, t in rec.calls():
                if A.cname(t) == "recovery::recover_sealed_memtables":
                    term = og.of_operand(t["args"][1])
                    bad = [x for x in A.walk(term) if x.k == "call" and (x.a[0].endswith("::rev") or "sort" in x.a[0].rsplit("::", 1)[-1])]
                    src_ok = any(A.ends_with_field(x, "sealed") for x in A.walk(term))
                    ctx.ob("R-C02.4", rec, "sealed-list-passed-unreordered", src_ok and not bad,
                           "recover_sealed_memtables receives journal_recovery.sealed unreordered" if (src_ok and not bad) else "sealed journal list is reordered or not the recovered one: %s" % A.tstr(term)[:200], rec.loc(b))

    # ---- R-C02.6 a sealed journal is deleted only when every live keyspace has persisted past its watermark (shared with C10)
    from . import C10
    C10.deletion_guard(ctx, "R-C02.6")

    # ---- R-C02.7 recovery leaves the journal tail such that writes acknowledged afterwards are readable next time (shared with C03)
    from . import C03
    C03.tail_repair(ctx, "R-C02.7")

    # ---- R-C02.5 who may touch files
    n = FS.check_fs_table(ctx, "R-C02.5")
    ctx.floor("R-C02.5", "fs-mutating call sites", n, 20)

    # ---- R-C02.8 nothing un-replayable reaches the journal: the tree PANICS on an empty or over-long key. A single write must
    # reject such a key BEFORE it takes the journal lock and appends the record — otherwise the record is journaled, the
    # panic poisons the journal mutex (every later write fails), and every later open panics while replaying the record.
    # (WriteBatch items are validated when they are created: batch::item::Item::new.)
    for fn in R.write_entries(ctx):
        if fn.id not in ("keyspace::Keyspace::insert", "keyspace::Keyspace::remove", "keyspace::Keyspace::remove_weak"):
            continue
        og = ctx.og(fn)
        app = R.call_blocks(fn, R.APPEND)
        lock = R.j_acquire_blocks(ctx, fn)
        empt = []
        for b, t in fn.calls():
            if A.cname(t).endswith("::is_empty") and any(x.k == "param" and x.a[0] == 2 for x in A.walk(og.of_operand(t["args"][0]))):
                empt.append(b)
        lens = [b for b, t in fn.calls() if (A.cname(t).endswith("TryFrom<usize>>::try_from") or "try_from" in A.cname(t)) and "u16" in (A.cname(t) + (t.get("full") or ""))]
        panics = [b for b, t in fn.calls() if A.cname(t).startswith(("core::panicking::", "std::rt::begin_panic", "std::panicking::"))]
        ok = bool(app) and bool(lock) and bool(empt) and bool(lens) and bool(panics) and all(A.dominates(fn, e, lock[0]) for e in empt[:1] + lens[:1])
        ctx.ob("R-C02.8", fn, "key-validated-before-the-journal", ok,
               "an empty / over-long key is rejected before the journal lock is taken" if ok
               else "the key is not validated before the record is journaled: insert(\"\") journals a record the tree then panics on — the journal mutex is poisoned and EVERY later open of the database panics while replaying that record",
               fn.loc(app[0]) if app else "")

    # (batch items: validated where they are created)
    itn = None
    for k_ in F.fns:
        if k_.split("::<")[0] == "batch::item::Item::new" or k_ == "batch::item::Item::new":
            itn = F.fns[k_]
    if itn is None:
        ctx.fn("batch::item::Item::new", "R-C02.8")
    else:
        ogi = ctx.og(itn)
        emp = [b for b, t in itn.calls() if A.cname(t).endswith("::is_empty")]
        lens = [b for b, t in itn.calls() if "try_from" in A.cname(t) and "u16" in (A.cname(t) + (t.get("full") or ""))]
        panics = [b for b, t in itn.calls() if A.cname(t).startswith(("core::panicking::", "std::rt::begin_panic", "std::panicking::"))]
        okv = bool(emp) and bool(lens) and len(panics) >= 2
        if okv:
            # the "empty" edge panics, the "non-empty" edge goes on
            sw = A.switch_after_call(itn, emp[0])
            if sw is None:
                okv = False
            else:
                tm_, neg_ = A.strip_not(ogi.of_operand(itn.term(sw)["d"]))
                z_, t_ = A.bool_edges(itn, sw)
                empty_edge = z_ if neg_ else t_
                okv = any(p_ in A.reach(itn, list(empty_edge)) for p_ in panics) and not any(x in A.reach(itn, list(empty_edge), avoid=panics) for x in itn.return_blocks())
            sw2 = A.switch_after_call(itn, [b for b, t in itn.calls() if A.cname(t).endswith(("Result::<T, E>::is_ok", "Result::<T, E>::is_err")) ][0]) if [b for b, t in itn.calls() if A.cname(t).endswith(("Result::<T, E>::is_ok", "Result::<T, E>::is_err"))] else None
            if okv and sw2 is not None:
                c2 = [b for b, t in itn.calls() if A.cname(t).endswith(("Result::<T, E>::is_ok", "Result::<T, E>::is_err"))][0]
                tm_, neg_ = A.strip_not(ogi.of_operand(itn.term(sw2)["d"]))
                z_, t_ = A.bool_edges(itn, sw2)
                inv = A.cname(itn.term(c2)).endswith("is_err")
                too_long = (t_ if inv else z_) if not neg_ else (z_ if inv else t_)
                okv = any(p_ in A.reach(itn, list(too_long)) for p_ in panics) and not any(x in A.reach(itn, list(too_long), avoid=panics) for x in itn.return_blocks())
        ctx.ob("R-C02.8", itn, "batch-item-key-validated-at-creation", okv,
               "an empty / over-long key is rejected when the batch item is created" if okv else
               "a batch item with an empty (or over-long) key can be created: commit journals it, the tree panics on it, and every later open of the database panics while replaying the record")

    # ---- R-C02.9 the default durability.  R-C02.1 decides "persist between append and apply" under the assumption that, with
    # automatic journal persist, a batch/transaction carries durability = Some(..).  That assumption is an obligation of its
    # own: every way to obtain a WriteBatch / BaseTransaction must install Some(..) when manual_journal_persist is false.
    # A constructor that hard-codes None must be crate-private and each of its callers must install the default (or forward a
    # durability that was itself defaulted).
    default_durability(ctx, "R-C02.9")

    # ---- R-C02.10 a crash during the very FIRST open leaves a directory that can still be opened.  Database::create_new lays the
    # directory out step by step (lock file, keyspaces folder, journal 0.jnl, version marker); a process that dies in between
    # leaves some of them behind and no marker.  For the next open to succeed, (a) every step that creates a file with
    # create-new semantics must tolerate its own leftover (AlreadyExists) or remove it first, and (b) the version marker must
    # not become visible before it is complete (an empty marker is refused as an invalid version forever).
    first_open_is_resumable(ctx, "R-C02.10")

    # ---- cross-cutting disciplines (rules/discipline.py)
    from .. import discipline as D
    # a recovery / journal step that fails must fail the open, not be skipped
    D.error_discipline(ctx, "R-C02.14", scope=lambda f: f.startswith(("db::Database::recover", "db::Database::create", "recovery::", "journal::", "<journal::")))
    # every journal, batch, item, keyspace folder and watermark is visited
    D.loops_visit_all(ctx, "R-C02.15")

    # ---- R-C02.19 the batch commit's "nothing to do" answer is given only for a batch without items: the early Ok is on the
    #      true edge of `is_empty()`, and is_empty / len are `data.len() == 0` / `data.len()`
    empty_batch_shortcut(ctx, "R-C02.19")

    # ---- borrowed obligations (mechanisms owned by other properties that this property's verdict also rests on)
    # an acknowledged value comes back only if what is journaled under a compression tag is that codec's output
    ctx.borrow("C15", ["R-C15.14"], "R-C02.18")
    # a write journaled while an ingestion registers its tables gets a seqno below them and is skipped by the next replay: the ingestion holds the journal lock across finish()
    ctx.borrow("C14", ["R-C14.2"], "R-C02.16")
    # seqno draw, append, apply and publish of a write are one critical section under the journal lock (a memtable sealed in the middle of a batch makes replay skip its rest)
    ctx.borrow("C14", ["R-C14.1"], "R-C02.17")
    # what was journaled must decode again: a decoder that rejects what the encoder writes loses acknowledged writes (read as a torn tail)
    ctx.borrow("C15", ["R-C15.3", "R-C15.6"], "R-C02.11")
    # items of a batch keep their journal order on replay
    ctx.borrow("C04", ["R-C04.8"], "R-C02.12")
    # replay skips nothing that no table holds
    ctx.borrow("C04", ["R-C04.5"], "R-C02.13", only_instances=["replay-guard-skips-exactly"])


SETTERS = ("batch::WriteBatch::durability", "tx::write_tx::BaseTransaction::durability",
           "tx::single_writer::write_tx::WriteTransaction::<'tx>::durability", "tx::optimistic::write_tx::WriteTransaction::durability")


def _is_some(term):
    return term.k == "agg" and str(term.a[0]).endswith("Option::Some")


def _is_none(term):
    return term.k == "agg" and str(term.a[0]).endswith("Option::None")


def _installs_default(ctx, fn, some_blocks):
    """with automatic journal persist (manual_journal_persist = false) every path entry -> return passes one of some_blocks"""
    pruned = A.prune_edges(fn, assume_field={"manual_journal_persist": False})
    if not pruned or not some_blocks:
        return False, "no branch on manual_journal_persist that installs Some(..)"
    errs = list(A.error_starts(fn))
    r = A.reach(fn, [0], avoid=list(some_blocks) + errs, pruned=pruned)
    rets = [x for x in fn.return_blocks() if x in r]
    if rets:
        p = A.find_path(fn, [0], rets, avoid=list(some_blocks) + errs, pruned=pruned)
        return False, "with manual_journal_persist = false a path reaches the return without installing Some(..): bb%s" % "->bb".join(map(str, p or []))
    return True, ""


def default_durability(ctx, rule):
    F = ctx.F
    ctors = []
    for fid, fn in sorted(F.fns.items()):
        for b, blk in enumerate(fn.blocks):
            if blk["cleanup"]:
                continue
            for st in blk["s"]:
                rv = st["rv"]
                if rv["k"] == "agg" and rv.get("adt") in ("batch::WriteBatch", "tx::write_tx::BaseTransaction") and "durability" in rv.get("fields", []):
                    ctors.append((fn, b, rv))
    ctx.floor(rule, "WriteBatch / BaseTransaction construction sites", ctors, 3)
    n_callers = 0
    for fn, b, rv in ctors:
        og = ctx.og(fn)
        term = og.of_operand(rv["ops"][rv["fields"].index("durability")])
        alts = A.alternatives(term)
        if all(_is_none(a) for a in alts):
            # hard-coded None: must not be nameable from outside the crate ...
            private = not str(fn.d.get("vis", "")).startswith("Public")
            ctx.ob(rule, fn, "constructor-without-default-durability-is-crate-private", private,
                   "%s builds the value with durability None and is crate-private: its callers install the default" % fn.id if private else
                   "%s is PUBLIC and builds the value with durability None: with automatic journal persist a batch obtained this way is acknowledged by commit() while its record is still in the journal's user-space buffer, and is lost when the process dies" % fn.id,
                   fn.loc(b))
            # ... and every caller installs the default or forwards one (a crate-private wrapper constructor hands the
            # obligation on to its own callers)
            work = [(fn, 0)]
            seen = set()
            while work:
                cur, depth = work.pop()
                if cur.id in seen:
                    continue
                seen.add(cur.id)
                for cfid, cb in ctx.cg.callers(cur.id):
                    caller = F.fns.get(cfid)
                    if caller is None:
                        continue
                    n_callers += 1
                    cog = ctx.og(caller)
                    sets = [(sb, cog.of_operand(t["args"][1])) for sb, t in caller.calls() if A.cname(t) in SETTERS and len(t["args"]) > 1]
                    fwd = [sb for sb, tm in sets if any(A.ends_with_field(x, "durability") for x in A.alternatives(tm))]
                    some = [sb for sb, tm in sets if _is_some(tm)]
                    wrapper = not sets and depth < 2 and not str(caller.d.get("vis", "")).startswith("Public") and caller.d.get("name") in ("new", "with_capacity") \
                        and any(x.k == "call" and x.a[0] == cur.id for x in A.walk(cog.of_local(0)))
                    if wrapper:
                        ctx.ob(rule, caller, "wrapper-constructor-is-crate-private", True,
                               "%s wraps %s without a default and is crate-private: its callers install the default" % (caller.id, cur.id), caller.loc(cb))
                        work.append((caller, depth + 1))
                        continue
                    if fwd and any(A.dominates(caller, cb, sb) for sb in fwd):
                        ok, why = True, "forwards the transaction's own durability (defaulted where the transaction was created)"
                    else:
                        ok, why = _installs_default(ctx, caller, some)
                        if ok:
                            why = "installs Some(..) on every path when manual_journal_persist is false"
                    ctx.ob(rule, caller, "caller-of-%s-installs-the-default-durability" % [p_ for p_ in cur.id.split("::") if not p_.startswith("<")][-2], ok,
                           why if ok else "%s obtains a value from %s (durability None) and %s" % (caller.id, cur.id, why), caller.loc(cb))
        else:
            some = [sb for sb, blk in enumerate(fn.blocks) if not blk["cleanup"] and any(
                s_["rv"]["k"] == "agg" and s_["rv"].get("adt") == "std::option::Option" and s_["rv"].get("variant") == "Some"
                and "PersistMode" in fn.local_ty(s_["p"]["l"]) for s_ in blk["s"])]
            from_param = any(a.k == "param" or A.ends_with_field(a, "durability") for a in alts)
            if from_param and not any(_is_none(a) for a in alts):
                ctx.ob(rule, fn, "constructor-takes-the-durability-from-its-caller", True, "durability := %s" % A.tstr(term)[:80], fn.loc(b))
                continue
            ok, why = _installs_default(ctx, fn, some)
            ctx.ob(rule, fn, "constructor-installs-the-default-durability", ok,
                   "durability := %s, Some(..) on every path when manual_journal_persist is false" % A.tstr(term)[:90] if ok else
                   "%s: %s" % (fn.id, why), fn.loc(b))
    ctx.floor(rule, "callers of None-durability constructors", n_callers, 6)
    # ... and "automatic" is what a database is configured with unless the user says otherwise: Config::new sets
    # manual_journal_persist (and clean_path_on_drop: a database that deletes itself on drop recovers nothing) to false, and
    # the only other writers of those fields are the builder's setters, storing their flag parameter
    cn = ctx.fn("db_config::Config::new", rule)
    if cn:
        ogc = ctx.og(cn)
        for blk in cn.blocks:
            for st in blk["s"]:
                rv = st["rv"]
                if rv["k"] == "agg" and rv.get("adt") == "db_config::Config":
                    d = dict(zip(rv["fields"], rv["ops"]))
                    for fld in ("manual_journal_persist", "clean_path_on_drop"):
                        tm = ogc.of_operand(d[fld]) if fld in d else None
                        okd = tm is not None and tm.k == "const" and tuple(tm.a) == ("bool", False)
                        ctx.ob(rule, cn, "config-default-%s-is-false" % fld, okd,
                               "Config::new: %s := false" % fld if okd else
                               "Config::new sets %s to %s by default: %s" % (fld, A.tstr(tm) if tm is not None else "?",
                                   "every write of a database opened with default settings is acknowledged while still in the journal's user-space buffer" if fld == "manual_journal_persist"
                                   else "a database opened with default settings deletes its folder when it is dropped"))
    nset = 0
    for fid, fn in sorted(F.fns.items()):
        if fid.startswith("<db_config::Config as std::clone::Clone>"):
            continue
        for fld in ("manual_journal_persist", "clean_path_on_drop"):
            for b, i, st in A.field_assigns(fn, fld, "Config"):
                nset += 1
                tm = ctx.og(fn).of_rvalue(st["rv"])
                okd = tm.k == "param"
                ctx.ob(rule, fn, "%s-written-from-the-setters-parameter" % fld, okd,
                       "%s := the setter's flag" % fld if okd else "%s is overwritten with %s in %s" % (fld, A.tstr(tm)[:60], fid), fn.loc(b))
    ctx.floor(rule, "writers of Config.manual_journal_persist / clean_path_on_drop besides Config::new", nset, 2)


CREATE_NEW = ("std::fs::File::create_new", "std::fs::OpenOptions::create_new")


def _tolerates_leftover(ctx, fid, depth=0):
    """the function that (transitively) creates a file with create-new semantics looks at ErrorKind on the failure edge"""
    fn = ctx.F.fns.get(fid)
    if fn is None or depth > 3:
        return False
    for b, t in fn.calls():
        n = A.cname(t)
        if n in CREATE_NEW:
            rf = A.result_flow(fn, b)
            starts = list(rf.err_blocks)
            if not starts and not rf.returned:
                # matched directly: look for an io::Error::kind call anywhere after the call
                starts = fn.succs(b)
            r = A.reach(fn, starts) if starts else set()
            if any(A.cname(fn.term(x)) == "std::io::Error::kind" for x in r if fn.term(x)["k"] == "call"):
                return True
            return False
        if n in ctx.F.fns and ctx.cg.reaches(n, set(CREATE_NEW)):
            return _tolerates_leftover(ctx, n, depth + 1)
    return False


def first_open_is_resumable(ctx, rule):
    fn = ctx.fn("db::Database::create_new", rule)
    if not fn:
        return
    og = ctx.og(fn)
    MARKER_CREATE = CREATE_NEW + ("std::fs::File::create",)

    def names(term):
        out = set()
        for c in A.consts_in(term):
            if isinstance(c, (list, tuple)) and len(c) == 2 and c[0] == "str":
                out.add(c[1])
            if isinstance(c, (list, tuple)) and len(c) == 2 and c[0] == "bytes":
                try:
                    out.add(bytes(c[1]).decode())
                except Exception:
                    pass
            if isinstance(c, (list, tuple)) and len(c) == 2 and c[0] == "def":
                out.add(str(c[1]))
        return out
    marker = [b for b, t in fn.calls() if A.cname(t) in MARKER_CREATE and any("version" in n.lower() for n in names(og.of_operand(t["args"][0])))]
    ctx.floor(rule, "version marker creation in Database::create_new", marker, 1)
    if not marker:
        return
    m = marker[0]
    removes = [(b, t) for b, t in fn.calls() if A.cname(t) in ("std::fs::remove_file", "std::fs::remove_dir_all")]
    steps = 0
    for b, t in fn.calls():
        n = A.cname(t)
        if b == m or not A.dominates(fn, b, m) or n not in ctx.F.fns or not ctx.cg.reaches(n, set(CREATE_NEW)):
            continue
        steps += 1
        ok = _tolerates_leftover(ctx, n)
        how = "tolerates the file a crashed first open left behind"
        if not ok:
            # ... or the leftover is removed first: a remove of the SAME path that can run before the step
            pn = names(og.of_operand(t["args"][0]))
            for rb, rt in removes:
                same = bool(pn) and pn == names(og.of_operand(rt["args"][0]))
                if same and b in A.reach_after(fn, rb):
                    ok = True
                    how = "finds its leftover removed first (remove_file of the same path on the resuming path)"
        short = "::".join(n.split("::")[-2:])
        ctx.ob(rule, fn, "step-%s-is-repeatable-after-an-interrupted-first-open" % short, ok,
               "%s %s" % (short, how) if ok else
               "%s creates its file with create-new semantics and gives up on AlreadyExists: when the process dies in Database::create_new after this step and before the version marker, every later open of the directory fails (the directory never held an acknowledged write, C02 still requires reopening to succeed)" % short,
               fn.loc(b))
    ctx.floor(rule, "create-new steps before the version marker", steps, 2)
    renamed = [b for b, t in fn.calls() if A.cname(t) == "std::fs::rename" and A.dominates(fn, m, b)]
    # the rename moves what was created (the temporary name) and comes after the marker's sync
    okr = False
    if renamed:
        syncs = [b for b, t in fn.calls() if A.cname(t) == "std::fs::File::sync_all" and A.dominates(fn, m, b)]
        src = og.of_operand(fn.term(renamed[0])["args"][0])
        okr = bool(syncs) and any(A.dominates(fn, s_, renamed[0]) for s_ in syncs) and bool(names(src) & names(og.of_operand(fn.term(m)["args"][0])))
    ctx.ob(rule, fn, "version-marker-becomes-visible-only-when-complete", bool(okr),
           "the marker is written under a temporary name, synced, and renamed into place" if okr else
           "the version marker is created under its final name and filled afterwards (or renamed before it is synced): a process that dies in between leaves an incomplete marker, which every later open refuses as an invalid version",
           fn.loc(m))
    # the route: create_or_recover sends an interrupted creation (and nothing else that holds files) to create_new
    cor = ctx.fn("db::Database::create_or_recover", rule)
    if cor:
        ic = [b for b, t in cor.calls() if A.cname(t) == "db::Database::is_interrupted_creation"]
        cn = [b for b, t in cor.calls() if A.cname(t) == "db::Database::create_new"]
        okc = False
        if ic and cn:
            sw = None
            for x in sorted(A.reach(cor, cor.succs(ic[0]))):
                t_ = cor.term(x)
                if t_["k"] == "switch" and t_.get("dty") == "bool" and any(y.k == "call" and y.a[0] == "db::Database::is_interrupted_creation" for y in A.walk(ctx.og(cor).of_operand(t_["d"]))):
                    sw = x
                    break
            if sw is not None:
                tm, neg = A.strip_not(ctx.og(cor).of_operand(cor.term(sw)["d"]))
                zero, true_t = A.bool_edges(cor, sw)
                yes = zero if neg else true_t
                okc = any(c in A.reach(cor, list(yes)) for c in cn)
        ctx.ob(rule, cor, "interrupted-creation-is-resumed", okc,
               "a folder that holds only what create_new lays out before the marker is handed to create_new" if okc else
               "create_or_recover never resumes an interrupted first creation: the folder is refused forever")


def empty_batch_shortcut(ctx, rule):
    bc = ctx.fn("batch::WriteBatch::commit", rule)
    ie = ctx.fn("batch::WriteBatch::is_empty", rule)
    ln = ctx.fn("batch::WriteBatch::len", rule)
    if ie and ln:
        t = ctx.og(ie).of_local(0)
        l = ctx.og(ln).of_local(0)
        ok_len = l.k == "call" and l.a[0].endswith("::len") and "Vec" in l.a[0] and A.tstr(l.a[1][0]).endswith("P1(self).data")
        ok_ie = t.k == "bin" and t.a[0] == "Eq" and any(x.k == "call" and x.a[0] == "batch::WriteBatch::len" for x in (t.a[1], t.a[2])) and \
            any(x.k == "const" and tuple(x.a[:2]) == ("int", 0) for x in (t.a[1], t.a[2]))
        # (`self.data.is_empty()` is the same thing)
        ok_ie = ok_ie or (t.k == "call" and t.a[0].endswith("::is_empty") and "Vec" in t.a[0] and A.tstr(t.a[1][0]).endswith("P1(self).data"))
        ctx.ob(rule, ie, "empty-means-no-items", ok_len and ok_ie, "is_empty = (data.len() == 0)" if ok_len and ok_ie else
               "WriteBatch::is_empty is %s with len = %s: a batch that has items can be taken for empty and acknowledged without being written" % (A.tstr(t)[:80], A.tstr(l)[:60]))
    if bc:
        ogb = ctx.og(bc)
        # `self.is_empty()` or, equivalently, `self.data.is_empty()`
        calls = [b for b, t in bc.calls() if A.cname(t) == "batch::WriteBatch::is_empty" or
                 (A.cname(t).endswith("::is_empty") and "Vec" in A.cname(t) and A.tstr(ogb.of_operand(t["args"][0])).endswith("P1(self).data"))]
        ok = False
        detail = "commit does not ask is_empty()"
        if len(calls) == 1:
            sw = A.switch_after_call(bc, calls[0])
            if sw is not None:
                f_t, t_t = A.bool_edges(bc, sw)
                # every Ok return that does not pass the journal append lies behind the TRUE edge only
                app = R.append_blocks(bc) if hasattr(R, "append_blocks") else [b for b, t in bc.calls() if A.cname(t).endswith("Writer::write_batch")]
                errs = list(A.error_starts(bc))
                r_false = A.reach(bc, f_t, avoid=app + errs)
                early_false = [x for x in bc.return_blocks() if x in r_false]
                r_true = A.reach(bc, t_t, avoid=errs)
                answers_true = [x for x in bc.return_blocks() if x in r_true]
                ok = bool(app) and not early_false and bool(answers_true)
                detail = "the early Ok lies on the is_empty() == true edge only; every other success passes the journal append" if ok else \
                    "a batch with items can be acknowledged without passing the journal append (returns reachable on the non-empty edge avoiding write_batch: %d)" % len(early_false)
        ctx.ob(rule, bc, "nothing-to-do-only-for-an-empty-batch", ok, detail)
