"""C04 — close and reopen reproduces the same logical content (replay sibling agreement, clear, ingestion, skip polarity)."""
from .. import analysis as A
from .. import roles as R

META = {
    "technique": "sibling agreement of the two replay loops (arm tables) + polarity-normalised branch analysis + held-guard dataflow",
    "explanation": (
        "R-C04.7: a single write applies the tombstone/value kind it journals (replay applies by the journaled kind). "
        "Decides: (1) the two replay loops (active journal in Database::recover, sealed journals in "
        "recover_sealed_memtables) agree: both dispatch the same record kinds to the same tree operations "
        "(Value->insert, Tombstone->remove, WeakTombstone->remove_weak, cleared_keyspaces->clear), key/value operands "
        "come from the record and every apply uses batch.seqno of the batch it belongs to; (2) Keyspace::clear is "
        "journaled (write_clear with its own id and seqno) and applies tree.clear on the same keyspace; (3) ingestion "
        "holds the journal lock across the inner finish; (4) in recover_sealed_memtables the recovered memtable is "
        "discarded (clear_active_memtable) only on the edge where the persisted seqno >= the journal's watermark, otherwise "
        "it is sealed (rotate_memtable), and each sealed journal is re-registered."),
    "not_decided": [
        "equality of content before/after reopen (value-level)",
        "replay-order interactions between journal records and tables written without the journal: reading lsm-tree's "
        "Ingestion::finish suggests ingest-over-journaled-keys may be shadowed after reopen — a value/ordering question for a dynamic technique",
        "the active-journal replay swallows a tree.clear() error with .ok() where the sealed replay propagates it (observation)",
    ],
    "assumptions": ["lsm-tree: insert/remove/remove_weak/clear at seqno s are idempotent under replay in journal order"],
}

KIND_TABLE = {"Value": "insert", "Tombstone": "remove", "WeakTombstone": "remove_weak"}
REPLAY = ("db::Database::recover", "recovery::recover_sealed_memtables")


def dispatch_table(fn):
    """for the switch on a ValueType discriminant: {variant: leaf name of the first tree apply reached from that arm (before any other arm's apply)}"""
    out = []
    applies = R.apply_blocks(fn)
    for b, blk in enumerate(fn.blocks):
        t = blk["t"]
        if t["k"] != "switch" or blk["cleanup"]:
            continue
        vm = A.discr_variants(fn, t["d"])
        if not vm or set(vm.values()) != {"Value", "Tombstone", "WeakTombstone", "Indirection"}:
            continue
        _, labels = A.switch_info(fn, b)
        table = {}
        for tg, names in labels.items():
            # first apply reachable from the arm without passing another apply
            first = [a for a in applies if a in A.reach(fn, [tg], stop=applies)]
            leafs = sorted({A.cname(fn.term(a)).rsplit("::", 1)[-1] for a in first})
            diverges = not [x for x in A.reach(fn, [tg]) if fn.term(x)["k"] == "return"] and not first
            for n in names:
                table[n] = ("<diverges>" if (diverges or not first) else "|".join(leafs), first)
        out.append((b, table))
    return out


PERSISTED = "::get_highest_persisted_seqno"


def replay_guard(ctx, rule, kinds=("items", "clears"), monotone=False):
    """journal replay applies a record (item / clear) only if the tree has not persisted it already.
    items:  a re-applied item sits in a memtable in FRONT of newer table data written without the journal (bulk ingestion)
            — point reads return the stale value — and undoes what a compaction filter did to the persisted copy (C18);
    clears: a re-executed clear drops every table of the keyspace, including tables written AFTER the clear without the
            journal (bulk ingestion after a clear)."""
    F = ctx.F
    cg = ctx.cg
    n = 0
    for fid in ("db::Database::recover", "recovery::recover_sealed_memtables"):
        fn = ctx.fn(fid, rule)
        if not fn:
            continue
        og = ctx.og(fn)
        sites = {"items": [b for b, t in fn.calls() if A.is_call_to(t, R.APPLY_ANY) and A.cname(t).rsplit("::", 1)[-1] in ("insert", "remove", "remove_weak") and A.in_cycle(fn, b)],
                 "clears": [b for b, t in fn.calls() if A.is_call_to(t, R.APPLY_ANY) and A.cname(t).rsplit("::", 1)[-1] == "clear" and A.in_cycle(fn, b)]}

        def guard_of(ab):
            """(guarded, table_derived): a dominating in-loop branch whose condition is computed from a persisted seqno of the tree"""
            for sb, blk in enumerate(fn.blocks):
                if blk["t"]["k"] != "switch" or blk["cleanup"] or not A.dominates(fn, sb, ab) or not A.in_cycle(fn, sb):
                    continue
                cond = og.of_operand(blk["t"]["d"])
                for x in A.walk(cond):
                    if x.k != "call":
                        continue
                    if x.a[0].endswith(PERSISTED):
                        return True, True
                    if x.a[0] in F.fns and _reaches_persisted(ctx, x.a[0]):
                        return True, True
            return False, False
        for kind in kinds:
            ss = sites[kind]
            if not ss:
                ctx.ob(rule, fn, "replay-%s-sites-present" % kind, False, "%s no longer applies journal %s" % (fid, kind), kind="anchor")
                continue
            n += len(ss)
            res = [guard_of(ab) for ab in ss]
            unguarded = [ab for ab, (g, td) in zip(ss, res) if not g]
            table_derived = [ab for ab, (g, td) in zip(ss, res) if g and td]
            refiltered = any("compaction::filter" in A.cname(t) or "CompactionFilter" in A.cname(t) for b, t in fn.calls())
            ok = not unguarded
            inst = "replay-skips-records-already-persisted" if kind == "items" else "replayed-clear-spares-newer-tables"
            if ok:
                detail = "every replayed %s is applied only if it is newer than what the tree has persisted" % ("record" if kind == "items" else "clear")
            elif kind == "items":
                detail = "journal replay re-applies records the tree has already persisted (%d apply site(s) with no persisted-seqno guard): a stale copy ends up in a memtable in front of newer table data written without the journal (bulk ingestion over a journaled key: point reads return the old value after a reopen), and an item a compaction filter removed or replaced is back in its original form" % len(unguarded)
            else:
                detail = "a replayed clear is re-executed unconditionally (tree.clear() drops every table): data bulk-ingested AFTER the clear is not in the journal and is wiped by the next reopen"
            ctx.ob(rule, fn, inst, ok, detail, fn.loc((unguarded or ss)[0]))
            if monotone and kind == "items" and not unguarded:
                okm = not (table_derived and not refiltered)
                ctx.ob(rule, fn, "replay-guard-watermark-is-monotone", okm,
                       "the replay guard's watermark cannot be lowered by compaction" if okm
                       else "the replay guard compares against get_highest_persisted_seqno() — the maximum over the CURRENT tables, which falls when compaction removes the newest persisted item (a compaction filter's verdict; a last-level compaction evicting a bulk-ingested tombstone together with the value it deletes): that item's journal record is above the watermark again, is replayed, and the item is back after a reopen",
                       fn.loc(table_derived[0]) if table_derived else "")
        # the guard is EXACT: a record is skipped iff its seqno <= the persisted seqno.  `<` replays the newest persisted
        # record again (a value a compaction filter replaced at that very seqno is shadowed by the journal's original; an
        # ingested table is shadowed by a stale journaled value); anything wider skips records no table holds (lost writes).
        if "items" in kinds and sites["items"]:
            rels = _guard_relations(ctx, fn, og, sites["items"])
            if rels:
                bad = [r for r in rels if r[0] != "<="]
                ctx.ob(rule, fn, "replay-guard-skips-exactly-up-to-the-persisted-seqno", not bad,
                       "skip condition is record.seqno <= persisted" if not bad else
                       "the replay guard skips a record when record.seqno %s persisted (%s): %s" % (
                           bad[0][0], bad[0][1],
                           "the record that carries the highest persisted seqno is replayed again — the journal's original value shadows what the tables hold at that seqno (a value a compaction filter replaced, C18; table data that superseded it)" if bad[0][0] == "<"
                           else "records that no table holds are skipped: acknowledged writes are lost on reopen"),
                       fn.loc(sites["items"][0]))
            else:
                ctx.ob(rule, fn, "replay-guard-skips-exactly-up-to-the-persisted-seqno", False,
                       "cannot find the comparison between the record's seqno and the persisted seqno in the replay guard (rule needs review)", kind="anchor")
        # a cached persisted seqno must be forgotten when a replayed clear drops the keyspace's tables: otherwise the records
        # that follow the clear are still judged "already persisted" and skipped (the tables that vouched for them are gone)
        if "clears" in kinds and sites["clears"]:
            cache_fns = set()
            for sb, blk in enumerate(fn.blocks):
                if blk["t"]["k"] != "switch" or blk["cleanup"] or not A.in_cycle(fn, sb):
                    continue
                for x in A.walk(og.of_operand(blk["t"]["d"])):
                    if x.k == "call" and x.a[0] in F.fns and _reaches_persisted(ctx, x.a[0]):
                        hf = F.fns[x.a[0]]
                        if hf.argc >= 1 and "&mut" in hf.local_ty(1):
                            cache_fns.add((x.a[0], hf.local_ty(1).replace("&mut ", "").strip()))
            for helper, cty in sorted(cache_fns):
                forgetters = [fid2 for fid2, f2 in F.fns.items() if f2.kind != "closure" and f2.argc >= 1 and f2.local_ty(1).replace("&mut ", "").strip() == cty and fid2 != helper
                              and any(A.cname(t2).rsplit("::", 1)[-1] in ("remove", "clear", "retain", "insert") and "HashMap" in A.cname(t2) for _, t2 in f2.calls())]
                heads = [bb for bb, tt in fn.calls() if A.cname(tt).endswith("::next") and A.in_cycle(fn, bb)]
                bad = []
                for c in sites["clears"]:
                    fb = [bb for bb, tt in fn.calls() if A.cname(tt) in forgetters]
                    errs = list(A.error_starts(fn))
                    r = A.reach(fn, list(fn.succs(c)), avoid=fb + errs)
                    if any(h in r for h in heads) or any(x in r for x in fn.return_blocks()):
                        bad.append(c)
                ctx.ob(rule, fn, "cached-persisted-seqno-forgotten-after-replayed-clear", not bad and bool(forgetters),
                       "after a replayed clear drops the tables, the cached persisted seqno of that keyspace is dropped too" if (not bad and forgetters)
                       else "the persisted seqno is cached (%s) and NOT invalidated after a replayed clear executed tree.clear(): the records journaled after the clear are judged already persisted by tables that no longer exist, and are lost" % cty,
                       fn.loc(bad[0]) if bad else "")
    ctx.floor(rule, "journal replay apply sites (%s)" % "+".join(kinds), n, 8 if len(kinds) == 2 else (6 if "items" in kinds else 2))


def _guard_relations(ctx, fn, og, apply_sites):
    """normalised relations `record.seqno REL persisted` under which the replay guard SKIPS, one per comparison found in the
    guard helper(s) (functions called in a dominating in-loop branch condition that reach get_highest_persisted_seqno) or
    inline in the condition.  REL in {"<=", "<", ">=", ">", "==", "!="}."""
    F = ctx.F
    out = []
    helpers = set()
    inline = []
    skip_on_true = {}
    for sb, blk in enumerate(fn.blocks):
        if blk["t"]["k"] != "switch" or blk["cleanup"] or not A.in_cycle(fn, sb) or not any(A.dominates(fn, sb, ab) for ab in apply_sites):
            continue
        cond = og.of_operand(blk["t"]["d"])
        core_t, neg = A.strip_not(cond)
        zero, true_t = A.bool_edges(fn, sb)
        # the branch on which the applies are NOT reachable is the skip branch
        heads = [bb for bb, tt in fn.calls() if A.cname(tt).endswith("::next") and A.in_cycle(fn, bb)]
        true_reaches = any(ab in A.reach(fn, true_t, avoid=heads) for ab in apply_sites)
        false_reaches = any(ab in A.reach(fn, zero, avoid=heads) for ab in apply_sites)
        if true_reaches == false_reaches:
            continue
        skip_when = (not true_reaches)  # value of the (possibly negated) discriminant on the skip edge
        if neg:
            skip_when = not skip_when
        for x in A.walk(core_t):
            if x.k == "call" and x.a[0] in F.fns and _reaches_persisted(ctx, x.a[0]):
                helpers.add((x.a[0], skip_when))
        if core_t.k == "bin" and core_t.a[0] in ("Lt", "Le", "Gt", "Ge", "Eq", "Ne") and any(
                y.k == "call" and (y.a[0].endswith(PERSISTED) or (y.a[0] in F.fns and _reaches_persisted(ctx, y.a[0]))) for y in A.walk(core_t)):
            inline.append((core_t, skip_when))

    def is_rec(t):
        return any((y.k == "param" and "seqno" in str(y.a)) or (y.k == "field" and y.a[1] == "seqno") for y in A.walk(t))

    def norm(op, l, r, truth, plus_one_right=False):
        # relation rec REL per that holds when the comparison evaluates to `truth`
        if is_rec(l) and not is_rec(r):
            rel = {"Le": "<=", "Lt": "<", "Ge": ">=", "Gt": ">", "Eq": "==", "Ne": "!="}[op]
        elif is_rec(r) and not is_rec(l):
            rel = {"Le": ">=", "Lt": ">", "Ge": "<=", "Gt": "<", "Eq": "==", "Ne": "!="}[op]
        else:
            return None
        if not truth:
            rel = {"<=": ">", "<": ">=", ">=": "<", ">": "<=", "==": "!=", "!=": "=="}[rel]
        return rel
    for t, skip_when in inline:
        rel = norm(t.a[0], t.a[1], t.a[2], skip_when)
        if rel:
            out.append((rel, A.tstr(t)[:80]))
    for hid, skip_when in helpers:
        for f2 in [F.fns[hid]] + F.closures_of(hid):
            og2 = ctx.og(f2)
            for b2, blk2 in enumerate(f2.blocks):
                if blk2["cleanup"]:
                    continue
                for st in blk2["s"]:
                    rv = st["rv"]
                    if rv["k"] == "bin" and rv.get("op") in ("Lt", "Le", "Gt", "Ge", "Eq", "Ne"):
                        l, r = og2.of_operand(rv["a"]), og2.of_operand(rv["b"])
                        # negations applied to this comparison's result before it is returned / switched on
                        negs = 0
                        dst = st["p"]["l"]
                        for u in A.uses_of(f2, dst):
                            if u[0] == "stmt" and u[3]["rv"]["k"] == "un" and u[3]["rv"].get("op") == "Not":
                                negs += 1
                        rel = norm(rv["op"], l, r, skip_when if negs % 2 == 0 else not skip_when)
                        if rel:
                            # `rec < per + 1` is `rec <= per`
                            other = r if is_rec(l) else l
                            plus = other.k == "bin" and other.a[0] in ("Add", "AddWithOverflow", "AddUnchecked", "Sub", "SubWithOverflow", "SubUnchecked")
                            if not plus:
                                for y in A.walk(other):
                                    if y.k == "bin" and y.a[0] in ("Add", "AddWithOverflow", "AddUnchecked", "Sub", "SubWithOverflow", "SubUnchecked"):
                                        plus = True
                            if plus:
                                one = any(c == ("int", 1) or (isinstance(c, (list, tuple)) and list(c)[-1] == 1) for c in A.consts_in(other))
                                adds = any(y.k == "bin" and y.a[0].startswith("Add") for y in A.walk(other))
                                if rel == "<" and one and adds:
                                    rel = "<="
                                else:
                                    rel = rel + " (persisted adjusted by a constant)"
                            out.append((rel, "%s in %s" % (A.tstr(og2.of_rvalue(rv))[:60], f2.id.rsplit("::", 2)[-2] + "::" + f2.id.rsplit("::", 1)[-1])))
    return out


def _reaches_persisted(ctx, fid, _seen=None):
    _seen = _seen or set()
    if fid in _seen or fid not in ctx.F.fns:
        return False
    _seen.add(fid)
    for f2 in [ctx.F.fns[fid]] + ctx.F.closures_of(fid):
        for b, t in f2.calls():
            n = A.cname(t)
            if n.endswith(PERSISTED):
                return True
            if n in ctx.F.fns and _reaches_persisted(ctx, n, _seen):
                return True
            for a in t["args"]:
                cl = A.closure_of_operand(f2, a)
                if cl and _reaches_persisted(ctx, cl, _seen):
                    return True
    return False


def run(ctx):
    F = ctx.F
    # ---- R-C04.1 replay sibling agreement
    tables = {}
    for fid in REPLAY:
        fn = ctx.fn(fid, "R-C04.1")
        if not fn:
            continue
        og = ctx.og(fn)
        dts = dispatch_table(fn)
        if len(dts) != 1:
            ctx.ob("R-C04.1", fn, "one-value-type-dispatch", False, "expected one match on item.value_type in the replay loop, found %d" % len(dts))
            continue
        sw, table = dts[0]
        tables[fid] = {k: v[0] for k, v in table.items()}
        for kind, want in KIND_TABLE.items():
            got = table.get(kind, ("?", []))
            ctx.ob("R-C04.1", fn, "replay-%s->%s" % (kind, want), got[0] == want, "journal record kind %s is replayed with tree.%s" % (kind, got[0]) + ("" if got[0] == want else " (must be %s)" % want))
            for a in got[1]:
                t = fn.term(a)
                args = [og.of_operand(x) for x in t["args"]]
                # key from the record, seqno = batch.seqno
                key_ok = A.ends_with_field(args[1], "key")
                seq = args[-1]
                seq_ok = A.ends_with_field(seq, "seqno") and any(x.k == "call" and x.a[0].endswith("JournalBatchReader as std::iter::Iterator>::next") for x in A.walk(seq))
                val_ok = True
                if want == "insert":
                    val_ok = A.ends_with_field(args[2], "value")
                # the item and the batch seqno belong to the same batch
                same = True
                bn = [x for x in A.walk(args[1]) if x.k == "call" and x.a[0].endswith("JournalBatchReader as std::iter::Iterator>::next")]
                sn = [x for x in A.walk(seq) if x.k == "call" and x.a[0].endswith("JournalBatchReader as std::iter::Iterator>::next")]
                if bn and sn:
                    same = bn[0].site == sn[0].site and bn[0].a[0] == sn[0].a[0]
                ctx.ob("R-C04.1", fn, "replay-%s-operands" % want, key_ok and seq_ok and val_ok and same,
                       "tree.%s(item.key%s, batch.seqno) with item and seqno of the same batch" % (want, ", item.value" if want == "insert" else "") if (key_ok and seq_ok and val_ok and same)
                       else "replay operands wrong: key=%s value=%s seqno=%s same-batch=%s" % (key_ok, val_ok, A.tstr(seq)[-60:], same), fn.loc(a))
        ind = table.get("Indirection", ("?", []))
        ctx.ob("R-C04.1", fn, "replay-Indirection-unreachable", ind[0] == "<diverges>", "Indirection records are never applied (arm diverges)" if ind[0] == "<diverges>" else "Indirection arm applies %s" % ind[0], nontrivial=False)
        # cleared keyspaces -> clear
        cl = [b for b in R.apply_blocks(fn) if A.cname(fn.term(b)).endswith("::clear")]
        okc = False
        if cl:
            conds = A.edge_conditions(fn, cl[0])
            idt = None
            for sb, term, labels in conds:
                root = A.value_root(term.a) if term.k == "discr" else None
                if root is not None and root.k == "call" and root.a[0] == "meta_keyspace::MetaKeyspace::resolve_id":
                    idt = root.a[1][1]
            okc = idt is not None and any(x.k == "field" and x.a[1] == "cleared_keyspaces" for x in A.walk(idt)) and A.in_cycle(fn, cl[0])
        tables[fid]["<cleared_keyspaces>"] = "clear" if okc else "?"
        ctx.ob("R-C04.1", fn, "replay-cleared_keyspaces->clear", okc, "every id in batch.cleared_keyspaces is replayed as tree.clear()" if okc else "cleared_keyspaces of a batch are not replayed as clear (a cleared keyspace would come back after reopen)")
    if len(tables) == 2:
        a, b = tables[REPLAY[0]], tables[REPLAY[1]]
        ctx.ob("R-C04.1", "<replay-siblings>", "active-and-sealed-replay-agree", a == b, "both replay loops implement the same table %s" % a if a == b else "replay loops disagree: active=%s sealed=%s" % (a, b))

    # ---- R-C04.2 clear is journaled
    kc = ctx.fn("keyspace::Keyspace::clear", "R-C04.2")
    if kc:
        og = ctx.og(kc)
        wc = R.call_blocks(kc, (R.WRITER + "::write_clear",))
        tc = [b for b in R.apply_blocks(kc) if A.cname(kc.term(b)).endswith("::clear")]
        ok = False
        detail = "Keyspace::clear lacks write_clear or tree.clear"
        if wc and tc:
            idt = og.of_operand(kc.term(wc[0])["args"][1])
            tr = og.of_operand(kc.term(tc[0])["args"][0])
            ok = A.access_path(idt) == ("P1", "id") and A.access_path(tr) == ("P1", "tree") and A.dominates(kc, wc[0], tc[0])
            detail = "write_clear(self.id, seqno) precedes self.tree.clear()" if ok else "clear journals %s / clears %s" % (A.tstr(idt), A.tstr(tr))
        ctx.ob("R-C04.2", kc, "clear-is-write-ahead-journaled", ok, detail)
    we = ctx.fn(R.WRITER + "::write_clear", "R-C04.2")
    if we:
        og = ctx.og(we)
        ok = False
        for blk in we.blocks:
            for st in blk["s"]:
                rv = st["rv"]
                if rv["k"] == "agg" and rv.get("adt") == "journal::entry::Entry" and rv.get("variant") == "Clear":
                    t = og.of_operand(rv["ops"][0])
                    ok = t.k == "param" and t.a[0] == 2
        ctx.ob("R-C04.2", we, "clear-record-carries-the-id", ok, "Entry::Clear{keyspace_id := parameter}" if ok else "write_clear does not encode the given keyspace id")
    br = ctx.fn("<journal::batch_reader::JournalBatchReader as std::iter::Iterator>::next", "R-C04.2")
    if br:
        og = ctx.og(br)
        ok = False
        for b, t in br.calls():
            if A.cname(t).endswith("Vec::<T, A>::push"):
                recv = og.of_operand(t["args"][0])
                val = og.of_operand(t["args"][1])
                if A.ends_with_field(recv, "cleared_keyspaces"):
                    ok = any(x.k == "downcast" and x.a[1] == "Clear" for x in A.walk(val))
        ctx.ob("R-C04.2", br, "reader-collects-clear-records", ok, "Entry::Clear{keyspace_id} is collected into cleared_keyspaces" if ok else "batch reader drops Clear records")

    # ---- R-C04.3 ingestion excludes writers
    ing = ctx.fn("ingestion::Ingestion::<'a>::finish", "R-C04.3")
    if ing:
        gs = R.j_guards(ctx, ing)
        fin = [b for b, t in ing.calls() if "lsm_tree" in A.cname(t) and "ngestion" in A.cname(t) and A.cname(t).endswith("::finish")]
        ok = bool(gs) and bool(fin) and all(A.must_held_at(ing, gs[0], b)[0] for b in fin)
        ctx.ob("R-C04.3", ing, "journal-lock-held-across-finish", ok, "journal lock must-held at the inner ingestion finish()" if ok else "tables are registered without excluding journal writers")

    # ---- R-C04.4 skip polarity
    rs = ctx.fn("recovery::recover_sealed_memtables", "R-C04.4")
    if rs:
        og = ctx.og(rs)
        cam = [b for b, t in rs.calls() if A.cname(t).endswith("::clear_active_memtable")]
        rot = [b for b, t in rs.calls() if A.cname(t).endswith("AbstractTree>::rotate_memtable")]
        isa = [b for b, t in rs.calls() if A.cname(t).endswith("Option::<T>::is_some_and")]
        ok = False
        detail = "skip decision (is_some_and over the persisted seqno) not found"
        if cam and rot and isa:
            t = rs.term(isa[0])
            src = og.of_operand(t["args"][0])
            from_persisted = any(x.k == "call" and x.a[0].endswith("::get_highest_persisted_seqno") for x in A.walk(src))
            cl = A.closure_of_operand(rs, t["args"][1])
            cf = F.fns.get(cl) if cl else None
            pol = False
            if cf:
                cog = A.Origins(cf)
                r = cog.of_local(0)
                r, neg = A.strip_not(r)
                if r.k == "bin" and r.a[0] in ("Ge", "Gt", "Le", "Lt"):
                    l_is_param = r.a[1].k == "param" and r.a[1].a[0] == 2
                    r_is_lsn = any(x.k == "field" and x.a[1] == "lsn" for x in A.walk(r.a[2]))
                    l_is_lsn = any(x.k == "field" and x.a[1] == "lsn" for x in A.walk(r.a[1]))
                    r_is_param = r.a[2].k == "param" and r.a[2].a[0] == 2
                    # value when persisted < lsn must be false, and when persisted == lsn true (already covered)
                    if l_is_param and r_is_lsn:
                        pol = (r.a[0] == "Ge") != neg
                    elif l_is_lsn and r_is_param:
                        pol = (r.a[0] == "Le") != neg
            sw = A.switch_after_call(rs, isa[0])
            # the bool may be stored in a local first
            if sw is None:
                dl = t["dest"]["l"]
                sws = [b for b, blk in enumerate(rs.blocks) if blk["t"]["k"] == "switch" and not blk["cleanup"] and
                       any(x.k == "call" and x.a[0].endswith("is_some_and") for x in A.walk(og.of_operand(blk["t"]["d"])))]
                sw = sws[0] if sws else None
            edges = False
            if sw is not None:
                zero, true_t = A.bool_edges(rs, sw)
                heads = [bb for bb, tt in rs.calls() if A.cname(tt).endswith("::next") and A.in_cycle(rs, bb) and sw in A.reach_after(rs, bb) and bb in A.reach_after(rs, sw)]
                rt = A.reach(rs, true_t, avoid=heads)
                rz = A.reach(rs, zero, avoid=heads)
                edges = all(c in rt for c in cam) and not any(c in rz for c in cam) and all(r_ in rz for r_ in rot) and not any(r_ in rt for r_ in rot)
            ok = from_persisted and pol and edges
            detail = "memtable discarded only when persisted seqno >= watermark; otherwise sealed" if ok else "skip polarity wrong: decision from persisted seqno=%s closure is `persisted >= lsn`=%s edges(discard on true, seal on false)=%s" % (from_persisted, pol, edges)
        ctx.ob("R-C04.4", rs, "discard-only-if-persisted-covers-journal", ok, detail)

    # ---- R-C04.6 what reopen replays is still there: a sealed journal is deleted only when every keyspace in it has persisted
    # past its watermark (shared with C10 / C02: a journal evicted early takes never-flushed keyspaces' content with it)
    from . import C10
    C10.deletion_guard(ctx, "R-C04.6")


    # ---- R-C04.5 replay applies only what the tree has not persisted yet (items and clears; shared with C18: R-C18.3).
    # For ITEMS the persisted watermark must be monotone: the maximum over the current tables falls when a last-level
    # compaction evicts a (bulk-ingested, hence un-journaled) tombstone together with the value it deletes — the value's
    # record is then above the watermark again and the deleted key comes back after a reopen. (For CLEARS the table-derived
    # watermark is enough: any table written after the clear keeps it above the clear's seqno.)
    replay_guard(ctx, "R-C04.5", kinds=("items",), monotone=True)
    replay_guard(ctx, "R-C04.5", kinds=("clears",))

    # ---- R-C04.7 what a single write journals is what it applies: replay applies by the JOURNALED kind, so a write that
    # journals one kind of tombstone and applies another answers differently after a reopen (shared with R-C01.1)
    from . import C01
    C01.journal_kind_rules(ctx, "R-C04.7")

    # ---- R-C04.8 a batch's items are applied in the order they were journaled.  All items of a batch carry ONE seqno, so for a
    # key written twice in a batch the memtable keeps whichever copy is applied last: any reordering between the journal and
    # the apply (a sort by keyspace, a reversed iteration, a dedup that is not the commit's own newest-per-key rule) changes
    # what a reopen yields.
    items_in_order(ctx, "R-C04.8")

    # ---- R-C04.14 replay routes every record by a lookup made for THAT record: the tree a replayed item / clear is applied
    #      to is `keyspaces.get(resolve_id(<this record's keyspace id>))`, looked up in the same round of the loop —
    #      not a handle carried over from an earlier record
    replay_routing(ctx, "R-C04.14")

    # ---- cross-cutting disciplines (rules/discipline.py)
    from .. import discipline as D
    # a recovery step that fails must fail the open
    D.error_discipline(ctx, "R-C04.10", scope=lambda f: f.startswith(("db::Database::recover", "recovery::", "journal::recovery", "journal::reader", "<journal::reader", "<journal::batch_reader", "journal::batch_reader")))
    # replay visits every journal, batch, item and keyspace
    D.loops_visit_all(ctx, "R-C04.11", only=("db::Database::recover", "recovery::recover_sealed_memtables", "recovery::recover_keyspaces", "journal::recovery::recover_journals"))

    # ---- borrowed obligations (mechanisms owned by other properties that this property's verdict also rests on)
    # what was journaled decodes to the same bytes on reopen
    ctx.borrow("C15", ["R-C15.3", "R-C15.6"], "R-C04.12")
    # ingestion finishes under the journal lock
    ctx.borrow("C14", ["R-C14.2"], "R-C04.13")
    # what recovery leaves at the journal's tail decides what the NEXT reopen reads
    ctx.borrow("C03", ["R-C03.3"], "R-C04.9")


REORDER = ("::sort", "::sort_by", "::sort_by_key", "::sort_unstable", "::sort_unstable_by", "::sort_unstable_by_key", "::sort_by_cached_key",
           "::reverse", "::rev", "::swap", "::rotate_left", "::rotate_right", "::dedup", "::dedup_by", "::dedup_by_key", "::retain",
           "::retain_mut", "::swap_remove", "::select_nth_unstable", "::select_nth_unstable_by", "::select_nth_unstable_by_key", "::shuffle")
ORDER_FNS = ("db::Database::recover", "recovery::recover_sealed_memtables", "batch::WriteBatch::commit",
             "<journal::batch_reader::JournalBatchReader as std::iter::Iterator>::next", "journal::writer::Writer::write_batch")
ITEM_TYS = ("ReadBatchItem", "batch::item::Item")


def items_in_order(ctx, rule):
    n = 0
    for fid in ORDER_FNS:
        fn = ctx.fn(fid, rule)
        if not fn:
            continue
        bad = []
        for f2 in [fn] + ctx.F.closures_of(fid):
            for b, t in f2.calls():
                name = A.cname(t)
                if not any(name.endswith(s) or (s + "::<") in name or name.split("::<")[0].endswith(s) for s in REORDER) or not t["args"]:
                    continue
                tys = []
                for a in t["args"][:1]:
                    p = A.op_place(a)
                    if p is not None:
                        tys.append(f2.local_ty(p["l"]))
                tys.append(name)
                tys.append(t.get("full") or "")
                if any(k in ty for ty in tys for k in ITEM_TYS):
                    bad.append((f2, b, name))
        n += 1
        ctx.ob(rule, fn, "batch-items-keep-their-journal-order", not bad,
               "no sort / reverse / dedup / retain over the batch's items between the journal and the apply" if not bad else
               "%s reorders or filters the items of a batch (%s): all items of a batch share one seqno, so for a key written twice in the batch the copy applied LAST wins — after a reopen the key has the earlier value, or a value the batch had already removed" % (
                   fid, bad[0][2].rsplit("::", 2)[-1] if "::" in bad[0][2] else bad[0][2]), bad[0][0].loc(bad[0][1]) if bad else "")
    ctx.floor(rule, "functions that carry batch items between journal and memtable", n, 5)


def _spine(t):
    """the chain of terms from t down through field / downcast projections and Try plumbing to the first real call"""
    out = []
    while True:
        out.append(t)
        if t.k in ("field", "downcast"):
            t = t.a[0]
        elif t.k == "index":
            t = t.a
        elif t.k == "call" and (A.is_transparent(t.a[0]) or t.a[0].endswith(("::branch", "::deref", "::as_ref", "::borrow"))) and t.a[1]:
            t = t.a[1][0]
        else:
            return out


def replay_routing(ctx, rule):
    F = ctx.F
    n = 0
    for fid in ("db::Database::recover", "recovery::recover_sealed_memtables"):
        fn = ctx.fn(fid, rule)
        if not fn:
            continue
        og = ctx.og(fn)
        for b in R.apply_blocks(fn):
            t = fn.term(b)
            leaf = A.cname(t).rsplit("::", 1)[-1]
            if leaf not in ("insert", "remove", "remove_weak", "clear") or not A.in_cycle(fn, b):
                continue
            n += 1
            recv = og.of_operand(t["args"][0])
            sp = _spine(recv)
            root = sp[-1]
            ok = False
            detail = ""
            if any(x.k == "phi" for x in sp):
                detail = "the handle the record is applied to is carried between rounds of the replay loop (%s): a record whose own lookup fails or is skipped lands in the keyspace of an earlier record" % A.tstr(recv)[:120]
            elif not (root.k == "call" and root.a[0].endswith("::get") and "HashMap" in root.a[0]):
                detail = "the receiver is not a lookup in the keyspaces map: %s" % A.tstr(root)[:120]
            else:
                key = _spine(root.a[1][1]) if len(root.a[1]) > 1 else []
                kroot = key[-1] if key else None
                if any(x.k == "phi" for x in key) or kroot is None or not (kroot.k == "call" and kroot.a[0].endswith("MetaKeyspace::resolve_id")):
                    detail = "the name looked up is not resolve_id(<record's id>) of this round: %s" % (A.tstr(kroot)[:120] if kroot is not None else "?")
                else:
                    idt = kroot.a[1][1]
                    ids = _spine(idt)
                    from_next = any(x.k == "call" and x.a[0].endswith("::next") and "Iterator" in x.a[0] for x in A.walk(idt))
                    no_phi = not any(x.k == "phi" for x in ids)
                    is_id = (leaf == "clear") or any(x.k == "field" and x.a[1] == "keyspace_id" for x in ids)
                    # both lookups happen in the round that applies: their call blocks dominate the apply and lie in its loop
                    lk = [bb for bb, tt in fn.calls() if A.cname(tt).endswith("MetaKeyspace::resolve_id") and A.dominates(fn, bb, b) and A.in_cycle(fn, bb)]
                    gk = [bb for bb, tt in fn.calls() if A.cname(tt).endswith("::get") and "HashMap" in A.cname(tt) and A.dominates(fn, bb, b) and A.in_cycle(fn, bb)]
                    ok = from_next and no_phi and is_id and bool(lk) and bool(gk)
                    detail = "applied to keyspaces.get(resolve_id(<this record>.keyspace_id)), both looked up in the same round" if ok else \
                        "id operand %s [element of the loop: %s, not carried: %s, is the record's id: %s, lookups dominate the apply: %s/%s]" % (
                            A.tstr(idt)[:80], from_next, no_phi, is_id, bool(lk), bool(gk))
            ctx.ob(rule, fn, "%s-routed-by-its-own-keyspace-id" % leaf, ok, detail, fn.loc(b))
    ctx.floor(rule, "replayed applies examined", n, 8)
