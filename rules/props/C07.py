"""C07 — optimistic transactions are serializable (read/write-set recording + validation window clauses)."""
from .. import analysis as A
from .. import roles as R
from .. import locks as L

META = {
    "technique": "must-pass-through + origin terms + held-guard dataflow over all methods of the Readable impl (MIR)",
    "explanation": (
        "Backward-validation SSI is only as good as its read set. Decided for ALL read methods at once (the method x "
        "interleaving product a history checker would need millions of runs to sample): (1) every method of `impl Readable "
        "for optimistic::WriteTransaction`, the trait's default methods, and fetch_update/update_fetch/take pass "
        "ConflictManager::mark_read/mark_range on every success path, with the keyspace id and key/bounds originating from "
        "the method's own parameters; (2) every write method reaches mark_conflict with its own key; (3) in "
        "Oracle::with_commit the serialize mutex is must-held from the conflict scan to the registration, the scan is "
        "committed.range(instant+1..), the commit closure runs only on the not-conflicted edge, and the registration is "
        "keyed by the visible seqno read after the commit closure's Ok edge and stores this transaction's conflict manager; "
        "records of committed transactions are pruned only by `retain(ts > get_seqno_safe_to_gc())` (the watermark below every live snapshot); "
        "(4) write_tx takes its snapshot under the same mutex; (5) the single-operation helpers go through the oracle and "
        "never write to the inner keyspace directly, commit passes its own instant and conflict manager; (6) every "
        "reachable arm of has_conflict consults the other transaction's key set before falling through."),
    "not_decided": [
        "serializability of histories as such (needs a history checker over executions)",
        "sufficiency of the recorded ranges for phantoms inside has_conflict's bound arithmetic",
        "the GC threshold of the committed-transaction table (retain)",
    ],
    "assumptions": ["BTreeMap::range / BTreeSet::{contains,range} behave per std docs"],
}

WT = "tx::optimistic::write_tx::WriteTransaction"
CM = "tx::optimistic::conflict_manager::ConflictManager"
MARK_READ = (CM + "::mark_read", CM + "::mark_range")
MARK_WRITE = (CM + "::mark_conflict",)
READ_NAMES = ("get", "contains_key", "size_of", "first_key_value", "last_key_value", "iter", "range", "prefix", "is_empty", "len")


def uses_param(term, idx):
    return any(x.k == "param" and x.a[0] == idx for x in A.walk(term))


def success_escape(fn, targets):
    """a success path entry->return avoiding `targets` blocks, or None. Error paths (Try::branch Break arms) are excluded."""
    errs = list(A.error_starts(fn))
    r = A.reach(fn, [0], avoid=list(targets) + errs)
    rets = [x for x in fn.return_blocks() if x in r]
    if rets:
        return A.find_path(fn, [0], rets, avoid=list(targets) + errs)
    return None


def run(ctx):
    F = ctx.F
    cg = ctx.cg
    impl = {f.d["name"]: f for f in F.fns.values() if f.d.get("trait") == "readable::Readable" and f.d.get("self_ty") == WT}
    ctx.floor("R-C07.1", "methods of impl Readable for optimistic WriteTransaction", impl, 8)
    defaults = {f.d["name"]: f for f in F.fns.values() if f.d.get("trait_default") == "readable::Readable"}
    ctx.floor("R-C07.1", "default methods of trait Readable", defaults, 2)

    # which methods record reads: fixpoint over "all success paths pass a recording call"
    def recording_blocks(fn, recorded):
        out = []
        for b, t in fn.calls():
            n = A.cname(t)
            if n in MARK_READ:
                out.append(b)
            elif t.get("callee", "").startswith("readable::Readable::") or n.startswith("<%s as readable::Readable>::" % WT):
                m = n.rsplit("::", 1)[-1]
                if m in recorded:
                    out.append(b)
        return out

    recorded = set()
    changed = True
    while changed:
        changed = False
        for name, fn in list(impl.items()) + list(defaults.items()):
            if name in recorded:
                continue
            rb = recording_blocks(fn, recorded)
            if rb and success_escape(fn, rb) is None:
                recorded.add(name)
                changed = True
    for name in READ_NAMES:
        fn = impl.get(name) or defaults.get(name)
        if fn is None:
            ctx.ob("R-C07.1", "<impl Readable for %s>" % WT, "method-%s-present" % name, False, "read method `%s` not found" % name, kind="anchor")
            continue
        ok = name in recorded
        detail = "every success path records the read (mark_read/mark_range, directly or through another recording method)"
        if not ok:
            rb = recording_blocks(fn, recorded)
            p = success_escape(fn, rb)
            detail = "read method returns successfully without recording what it read: a concurrent commit invalidating this observation is not detected (path bb%s; recording calls seen: %d)" % (
                "->bb".join(map(str, p or [])), len(rb))
        ctx.ob("R-C07.1", fn, "records-read", ok, detail)
        ctx.count_sites()
        # operands of the recording calls come from the method's own parameters
        og = ctx.og(fn)
        for b, t in fn.calls():
            n = A.cname(t)
            if n in MARK_READ:
                ks = og.of_operand(t["args"][1])
                okk = A.access_path(ks) == ("P2", "id")
                what = og.of_operand(t["args"][2])
                if name in ("iter",):
                    okw = True  # full range
                else:
                    okw = uses_param(what, 3)
                ctx.ob("R-C07.1", fn, "recorded-operands-are-own-parameters#%s" % n.rsplit("::", 1)[-1], okk and okw,
                       "%s(keyspace := %s, what := %s)" % (n.rsplit("::", 1)[-1], A.tstr(ks), A.tstr(what)[:120]) + ("" if okk and okw else " — not the keyspace/key this method was asked to read"), fn.loc(b))
                if name == "range" and n.endswith("::mark_range"):
                    # the recorded bounds are the caller's: (start_bound(range), end_bound(range)) in that order
                    okb = False
                    for x in A.walk(what):
                        if x.k == "agg" and x.a[0] == "(tuple)" and len(x.a[1]) == 2:
                            d = dict(x.a[1])
                            okb = any(y.k == "call" and y.a[0].endswith("::start_bound") for y in A.walk(d["0"])) and not any(y.k == "call" and y.a[0].endswith("::end_bound") for y in A.walk(d["0"])) and \
                                any(y.k == "call" and y.a[0].endswith("::end_bound") for y in A.walk(d["1"])) and not any(y.k == "call" and y.a[0].endswith("::start_bound") for y in A.walk(d["1"]))
                    ctx.ob("R-C07.1", fn, "recorded-range-is-the-scanned-range", okb, "mark_range((range.start_bound(), range.end_bound()))" if okb else "the range recorded for conflict detection is not (start_bound, end_bound) of the scanned range: %s" % A.tstr(what)[:140], fn.loc(b))
            elif name == "prefix" and n.endswith("::range") and "Readable" in n:
                rng = og.of_operand(t["args"][2])
                okp = any(x.k == "call" and x.a[0].endswith("prefix_to_range") and uses_param(x, 3) for x in A.walk(rng)) and A.tstr(og.of_operand(t["args"][1])).startswith("P2")
                ctx.ob("R-C07.1", fn, "prefix-records-prefix_to_range", okp, "prefix() scans/records range := %s" % A.tstr(rng)[:120], fn.loc(b))
    # read-modify-write helpers record the read of their key
    for m in ("fetch_update", "update_fetch", "take"):
        fn = ctx.fn(WT + "::" + m, "R-C07.1")
        if not fn:
            continue
        rb = [b for b, t in fn.calls() if A.cname(t) in MARK_READ or A.cname(t) in (WT + "::fetch_update", WT + "::update_fetch")]
        p = success_escape(fn, rb)
        ctx.ob("R-C07.1", fn, "records-read", p is None and bool(rb), "read-modify-write records its read on every success path" if (p is None and rb) else "rmw helper can succeed without recording its read")
        og = ctx.og(fn)
        for b, t in fn.calls():
            if A.cname(t) == CM + "::mark_read":
                okk = A.access_path(og.of_operand(t["args"][1])) == ("P2", "id") and uses_param(og.of_operand(t["args"][2]), 3)
                ctx.ob("R-C07.1", fn, "recorded-operands-are-own-parameters", okk, "mark_read(%s, %s)" % (A.tstr(og.of_operand(t["args"][1])), A.tstr(og.of_operand(t["args"][2]))[:80]), fn.loc(b))

    # ---- R-C07.2 every write recorded
    for m in ("insert", "remove", "remove_weak", "fetch_update", "update_fetch"):
        fn = ctx.fn(WT + "::" + m, "R-C07.2")
        if not fn:
            continue
        wb = [b for b, t in fn.calls() if A.cname(t) in MARK_WRITE]
        p = success_escape(fn, wb)
        og = ctx.og(fn)
        okargs = bool(wb) and all(A.access_path(og.of_operand(fn.term(b)["args"][1])) == ("P2", "id") and uses_param(og.of_operand(fn.term(b)["args"][2]), 3) for b in wb)
        ctx.ob("R-C07.2", fn, "records-write", p is None and okargs,
               "write recorded via mark_conflict(own keyspace id, own key) on every success path" if (p is None and okargs) else "write method can complete without recording its key in the write set (or records a different key)")
        # and the write actually goes to the inner transaction with the same key
        ib = [b for b, t in fn.calls() if A.cname(t).startswith("tx::write_tx::BaseTransaction::")]
        ctx.ob("R-C07.2", fn, "delegates-to-inner", bool(ib), "delegates to BaseTransaction::%s" % (A.cname(fn.term(ib[0])).rsplit("::", 1)[-1] if ib else "?"), nontrivial=False)

    # ---- R-C07.3 validation window and order
    wc = ctx.fn("tx::optimistic::oracle::Oracle::with_commit", "R-C07.3")
    if wc:
        lm = L.LockModel(ctx)
        gs = [g for g in lm.guards(wc) if g.cls == "write_serialize_lock"]
        og = ctx.og(wc)
        rng = [b for b, t in wc.calls() if A.cname(t).startswith("std::collections::BTreeMap") and A.cname(t).endswith("::range")]
        anyb = [b for b, t in wc.calls() if A.cname(t).endswith("::any")]
        callf = [b for b, t in wc.calls() if (t.get("callee") or "") == "std::ops::FnOnce::call_once"]
        ins = [b for b, t in wc.calls() if A.cname(t).startswith("std::collections::BTreeMap") and A.cname(t).endswith("::insert")]
        for role, bs in (("conflict-scan", rng), ("commit-closure", callf), ("registration", ins)):
            if not bs:
                ctx.ob("R-C07.3", wc, role + "-present", False, "with_commit has no %s" % role)
                continue
            ok, why = (A.must_held_at(wc, gs[0], bs[0]) if gs else (False, "serialize lock not acquired"))
            ctx.ob("R-C07.3", wc, role + "-under-serialize-lock", ok, "%s: serialize mutex %s" % (role, "must-held" if ok else "NOT held (%s)" % why), wc.loc(bs[0]))
        if rng:
            term = og.of_operand(wc.term(rng[0])["args"][1])
            start = None
            for x in A.walk(term):
                if x.k == "agg" and x.a[0].endswith("RangeFrom::RangeFrom"):
                    start = dict(x.a[1]).get("start")
            ok = False
            if start is not None:
                s = start
                while s.k == "field" and s.a[1] in ("0",):
                    s = s.a[0]
                ok = s.k == "bin" and s.a[0].startswith("Add") and s.a[1].k == "param" and s.a[1].a[0] == 2 and s.a[2].k == "const" and s.a[2].a == ("int", 1)
            ctx.ob("R-C07.3", wc, "scan-window-is-instant+1..", ok,
                   "conflict scan covers committed.range(%s)" % A.tstr(term)[:120] + ("" if ok else " — must be exactly (instant+1).. : a wider window aborts needlessly, a narrower one misses conflicts"), wc.loc(rng[0]))
        if anyb:
            cl = A.closure_of_operand(wc, wc.term(anyb[0])["args"][1])
            cf = F.fns.get(cl) if cl else None
            ok = False
            if cf:
                for b, t in cf.calls():
                    if A.cname(t) == CM + "::has_conflict":
                        cog = A.Origins(cf)
                        me = cog.of_operand(t["args"][0])
                        ok = any(x.k == "field" and x.a[1] == "conflict_checker" for x in A.walk(me))
            ctx.ob("R-C07.3", wc, "scan-tests-own-reads-against-committed-writes", ok,
                   "any(|other| conflict_checker.has_conflict(other))" if ok else "the scan does not call has_conflict(self=own conflict manager, other=committed)")
        if anyb and callf:
            sw = A.switch_after_call(wc, anyb[0])
            # `conflicted` may be consumed later: find the switch on the local holding any()'s result
            dl = wc.term(anyb[0])["dest"]["l"]
            sws = [b for b, blk in enumerate(wc.blocks) if blk["t"]["k"] == "switch" and not blk["cleanup"] and
                   any(x.k == "call" and x.a[0].endswith("::any") for x in A.walk(og.of_operand(blk["t"]["d"])))]
            ok = False
            detail = "the result of the conflict scan is never branched on"
            if sws:
                zero, true_t = A.bool_edges(wc, sws[0])
                conflicted_region = A.reach(wc, true_t)
                ok = not any(c in conflicted_region for c in callf + ins) and all(A.dominates(wc, sws[0], c) for c in callf)
                detail = "conflicted edge %s" % ("returns without committing or registering" if ok else "still reaches the commit closure / registration")
                if ok:
                    agg = [s for x in conflicted_region for s in wc.blocks[x]["s"] if s["rv"]["k"] == "agg" and s["rv"].get("variant") == "Conflicted"]
                    ok = bool(agg)
                    if not ok:
                        detail = "conflicted edge does not report CommitOutcome::Conflicted"
            ctx.ob("R-C07.3", wc, "commit-only-if-not-conflicted", ok, detail)
        if callf and ins:
            rf = A.result_flow(wc, callf[0])
            dom = all(any(A.dominates(wc, okb, i) for okb in rf.ok_blocks) for i in ins) and not any(i in A.reach(wc, rf.err_blocks) for i in ins)
            key = og.of_operand(wc.term(ins[0])["args"][1])
            keysite_ok = key.k == "call" and key.a[0] == "snapshot_tracker::SnapshotTracker::get" and key.site and A.dominates(wc, callf[0], key.site[1])
            val = og.of_operand(wc.term(ins[0])["args"][2])
            val_ok = val.k == "param" and val.a[0] == 3
            ctx.ob("R-C07.3", wc, "register-after-successful-commit", dom and keysite_ok and val_ok,
                   "committed.insert(%s, %s) on the commit closure's Ok edge, timestamp read after the commit" % (A.tstr(key), A.tstr(val)) if (dom and keysite_ok and val_ok)
                   else "registration is not (only after the commit's Ok edge; keyed by the visible seqno read after it; storing this tx's conflict manager): dom=%s key=%s val=%s" % (dom, A.tstr(key), A.tstr(val)))

    # ---- R-C07.7 the committed-transaction table is pruned only below the GC watermark
    if wc:
        og = ctx.og(wc)
        rt = [b for b, t in wc.calls() if A.cname(t).startswith("std::collections::BTreeMap") and A.cname(t).endswith("::retain")]
        others = [b for b, t in wc.calls() if A.cname(t).startswith("std::collections::BTreeMap") and A.cname(t).rsplit("::", 1)[-1] in
                  ("remove", "clear", "pop_first", "pop_last", "split_off", "extract_if", "drain", "remove_entry")]
        ctx.ob("R-C07.7", wc, "no-other-removal-from-committed-table", not others, "committed transactions leave the table only through the watermark-guarded retain" if not others else "committed-transaction records are removed by %s" % [A.cname(wc.term(b)).rsplit("::", 1)[-1] for b in others], nontrivial=False)
        for b in rt:
            cl = wc.term(b)["args"][1]
            term = og.of_operand(cl)
            ok = False
            detail = "retain predicate not understood"
            if term.k == "closure":
                cf = F.fns.get(term.a[0])
                env = dict(term.a[1])
                if cf:
                    cog = A.Origins(cf)
                    r, neg = A.strip_not(cog.of_local(0))
                    if r.k == "bin" and r.a[0] in ("Gt", "Ge", "Lt", "Le"):
                        def is_ts(x):
                            return x.k == "param" and x.a[0] == 2
                        def thr_of(x):
                            ap = A.access_path(x)
                            if ap and ap[0] == "P1" and len(ap) == 2:
                                for k, v in env.items():
                                    if k.lstrip("*&") == ap[1].lstrip("*&"):
                                        return v
                            return None
                        l, rr = r.a[1], r.a[2]
                        thr = None
                        keeps_newer = False
                        if is_ts(l) and thr_of(rr) is not None:
                            thr = thr_of(rr)
                            keeps_newer = (r.a[0] in ("Gt", "Ge")) != neg
                        elif is_ts(rr) and thr_of(l) is not None:
                            thr = thr_of(l)
                            keeps_newer = (r.a[0] in ("Lt", "Le")) != neg
                        if thr is not None:
                            pure = thr.k == "call" and thr.a[0] == "snapshot_tracker::SnapshotTracker::get_seqno_safe_to_gc"
                            ok = pure and keeps_newer
                            detail = "retain(|ts| ts > %s)" % A.tstr(thr)[:100] + ("" if ok else " — the pruning threshold must be exactly the snapshot tracker's GC watermark (a larger value discards conflict records that an older, still open transaction needs for validation)")
            ctx.ob("R-C07.7", wc, "prune-threshold-is-gc-watermark", ok, detail, wc.loc(b))

    # ---- R-C07.4 snapshot under the same mutex
    wt = ctx.fn("tx::optimistic::OptimisticTxDatabase::write_tx", "R-C07.4")
    if wt:
        lm = L.LockModel(ctx)
        gs = [g for g in lm.guards(wt) if g.cls == "write_serialize_lock"]
        ob = R.call_blocks(wt, (R.OPEN_VIEW,))
        ok = bool(gs) and bool(ob) and A.must_held_at(wt, gs[0], ob[0])[0]
        ctx.ob("R-C07.4", wt, "snapshot-under-serialize-lock", ok, "snapshot_tracker.open() runs with the oracle's serialize mutex held" if ok else "the transaction snapshot is taken outside the oracle mutex (stale read timestamp vs. commit queue)")
        ok2 = False
        for b, t in wt.calls():
            if A.cname(t) == WT + "::new":
                term = ctx.og(wt).of_operand(t["args"][1])
                ok2 = term.k == "call" and term.a[0] == R.OPEN_VIEW
        ctx.ob("R-C07.4", wt, "tx-holds-that-snapshot", ok2, "WriteTransaction::new receives the nonce opened under the lock" if ok2 else "the transaction is not built from the snapshot opened under the lock")

    # ---- R-C07.5 helpers go through the oracle
    KSH = "tx::optimistic::keyspace::OptimisticTxKeyspace"
    direct = {"keyspace::Keyspace::insert", "keyspace::Keyspace::remove", "keyspace::Keyspace::remove_weak", "keyspace::Keyspace::clear"}
    for m in ("insert", "remove", "remove_weak", "take", "fetch_update", "update_fetch"):
        fn = ctx.fn(KSH + "::" + m, "R-C07.5")
        if not fn:
            continue
        reaches = cg.reaches(fn.id, {"tx::optimistic::oracle::Oracle::with_commit"})
        by = cg.call_chain(fn.id, direct)
        # allowed only via the batch path; direct Keyspace::insert etc must not be reachable at all
        ctx.ob("R-C07.5", fn, "goes-through-oracle", reaches and not by,
               "helper commits through Oracle::with_commit and never writes to the inner keyspace directly" if (reaches and not by)
               else ("helper bypasses conflict detection: %s" % (" -> ".join(by) if by else "does not reach Oracle::with_commit")))
    cm = ctx.fn(WT + "::commit", "R-C07.5")
    if cm:
        ok = False
        detail = "commit does not call Oracle::with_commit"
        for b, t in cm.calls():
            if A.cname(t).startswith("tx::optimistic::oracle::Oracle::with_commit"):
                og = ctx.og(cm)
                inst = og.of_operand(t["args"][1])
                cmm = og.of_operand(t["args"][2])
                ok = A.access_path(inst) == ("P1", "inner", "nonce", "instant") and A.access_path(cmm) == ("P1", "cm")
                detail = "with_commit(instant := %s, conflict manager := %s, ..)" % (A.tstr(inst), A.tstr(cmm))
                cl = A.closure_of_operand(cm, t["args"][3])
                inner_ok = bool(cl) and cg.reaches(cl, {"tx::write_tx::BaseTransaction::commit"})
                ctx.ob("R-C07.5", cm, "closure-commits-inner", inner_ok, "commit closure runs BaseTransaction::commit" if inner_ok else "commit closure does not commit the inner transaction")
        ctx.ob("R-C07.5", cm, "passes-own-instant-and-read-set", ok, detail)

    # ---- R-C07.6 conflict test consults the write set on every arm
    hc = ctx.fn(CM + "::has_conflict", "R-C07.6")
    if hc:
        og = ctx.og(hc)
        query = []
        for b, t in hc.calls():
            n = A.cname(t)
            if "BTreeSet" in n and n.rsplit("::", 1)[-1] in ("contains", "range", "is_empty", "iter", "into_iter", "first", "last", "len", "get"):
                query.append(b)
            elif n.endswith("RangeToInclusive<Idx>::contains") or n.endswith("RangeTo<Idx>::contains") or "::contains" in n and "ops::Range" in n:
                query.append(b)
        arms = []
        for b, blk in enumerate(hc.blocks):
            t = blk["t"]
            if t["k"] == "switch" and not blk["cleanup"]:
                vm = A.discr_variants(hc, t["d"])
                if vm and set(vm.values()) == {"Single", "Range", "All"}:
                    _, labels = A.switch_info(hc, b)
                    for tg, names in labels.items():
                        for nme in names:
                            if nme in ("Single", "Range", "All"):
                                arms.append((nme, tg, b))
        ctx.floor("R-C07.6", "arms of the match on Read", arms, 3)
        # loop head = the Iterator::next over the reads of one keyspace: an arm that reaches it (or a `return`) without a query is a hole
        nexts = [b for b, t in hc.calls() if A.cname(t).endswith("::next") and "Iterator" in (t.get("callee") or "")]
        for nme, tg, swb in arms:
            r = A.reach(hc, [tg], avoid=query)
            leak = [x for x in nexts + hc.return_blocks() if x in r]
            ctx.ob("R-C07.6", hc, "arm-%s-consults-write-set" % nme, not leak,
                   "Read::%s arm queries the other transaction's key set on every path" % nme if not leak else "Read::%s arm can fall through without looking at the other transaction's writes" % nme, hc.loc(tg))
        # "no conflict" is concluded only after EVERY keyspace of the read set was checked: inside the loop over the read
        # set's keyspaces the function may leave only with `true`; `false` is the answer of the exhausted loop alone
        outer = [b for b, t in hc.calls() if A.cname(t).endswith("::next") and "Iterator" in (t.get("callee") or "") and A.in_cycle(hc, b)
                 and any(x.k == "call" and x.a[0].startswith("std::sync::Mutex") for x in A.walk(og.of_operand(t["args"][0])))]
        # the outermost loop head: the `next` whose block dominates the other loop heads
        heads = [b for b in nexts if A.in_cycle(hc, b)]
        oh = [h for h in heads if all(h == o or A.dominates(hc, h, o) for o in heads)]
        okx = False
        detail = "loop over the read set not found"
        if oh:
            h = oh[0]
            sw = A.switch_after_call(hc, h)
            exits_ok = True
            body_starts = []
            if sw is not None:
                _, labels = A.switch_info(hc, sw)
                body_starts = [tg for tg, names in labels.items() if "Some" in names]
            if body_starts:
                vals = A.consts_at_return(hc, body_starts, avoid=[h])
                okx = vals <= {("bool", True)}
                detail = "inside the loop over the read set's keyspaces has_conflict returns only `true`; `false` needs the loop to be exhausted" if okx else \
                    "has_conflict can answer `false` from inside the loop over the read set's keyspaces (returns %s before the loop is exhausted): the keyspaces not yet visited are never validated — cross-keyspace write skew commits" % sorted(map(str, vals))
        ctx.ob("R-C07.6", hc, "no-conflict-only-after-all-keyspaces", okx, detail)
        # the sets compared: own reads vs OTHER's conflict keys
        ok = False
        for b, t in hc.calls():
            if A.cname(t).startswith("std::sync::Mutex") and A.cname(t).endswith("::lock"):
                term = og.of_operand(t["args"][0])
                if A.access_path(term) == ("P2", "conflict_keys"):
                    ok = True
        ok2 = any(A.access_path(og.of_operand(t["args"][0])) == ("P1", "reads") for b, t in hc.calls() if A.cname(t).startswith("std::sync::Mutex") and A.cname(t).endswith("::lock"))
        ctx.ob("R-C07.6", hc, "own-reads-vs-other-writes", ok and ok2, "has_conflict compares self.reads with other.conflict_keys" if ok and ok2 else "has_conflict does not compare self.reads against other.conflict_keys")

    # ---- R-C07.14 the recording functions really record.  R-C07.1/2 decide that every read / write method CALLS mark_read /
    # mark_range / mark_conflict with its own operands; here: what those do with them.
    for fid_, coll, meth in ((CM + "::push_read", "Vec", "push"), (CM + "::mark_conflict", "BTreeSet", "insert")):
        f_ = ctx.fn(fid_, "R-C07.14")
        if not f_:
            continue
        og_ = ctx.og(f_)
        stores = [b for b, t in f_.calls() if A.cname(t).endswith("::" + meth) and coll in A.cname(t) and len(t["args"]) > 1 and
                  og_.of_operand(t["args"][1]).k == "param" and og_.of_operand(t["args"][1]).a[0] == 3]
        r_ = A.reach(f_, [0], avoid=stores)
        skip = [x for x in f_.return_blocks() if x in r_]
        # and into the map of the right field, under the given keyspace id
        keyed = all(any(x.k == "param" and x.a[0] == 2 for x in A.walk(og_.of_operand(f_.term(b)["args"][0]))) for b in stores)
        ctx.ob("R-C07.14", f_, "records-its-operand-on-every-path", bool(stores) and not skip and keyed,
               "%s: %s::%s(.., the given %s) under the given keyspace id on every path" % (fid_.rsplit("::", 1)[-1], coll, meth, "read" if meth == "push" else "key") if (stores and not skip and keyed) else
               "%s can return without storing its operand (or stores it under another keyspace): %s" % (fid_.rsplit("::", 1)[-1],
                   "reads that are not recorded are never validated — a transaction whose observation was invalidated commits" if meth == "push" else "writes that are not recorded never invalidate anybody — lost updates and write skew commit"))
    mr = ctx.fn(CM + "::mark_read", "R-C07.14")
    if mr:
        og_ = ctx.og(mr)
        pr = [t for b, t in mr.calls() if A.cname(t) == CM + "::push_read"]
        ok = False
        if pr:
            a2 = og_.of_operand(pr[0]["args"][1])
            a3 = og_.of_operand(pr[0]["args"][2])
            ok = a2.k == "param" and a2.a[0] == 2 and a3.k == "agg" and str(a3.a[0]).endswith("Read::Single") and any(x.k == "param" and x.a[0] == 3 for x in A.walk(a3))
        ctx.ob("R-C07.14", mr, "mark_read-records-single-key", ok, "mark_read = push_read(keyspace id, Read::Single(key))" if ok else "mark_read does not record Read::Single(its key) under its keyspace id")
    mg = ctx.fn(CM + "::mark_range", "R-C07.14")
    if mg is None:
        cands = [f for f in F.fns if f.startswith(CM + "::mark_range")]
        mg = F.fns[cands[0]] if cands else ctx.fn(CM + "::mark_range", "R-C07.14")
    if mg:
        og_ = ctx.og(mg)
        pr = [b for b, t in mg.calls() if A.cname(t) == CM + "::push_read"]
        r_ = A.reach(mg, [0], avoid=pr)
        ok = bool(pr) and not [x for x in mg.return_blocks() if x in r_]
        # bound kinds are preserved: Included -> Included, Excluded -> Excluded, Unbounded -> Unbounded (two matches)
        kinds_ok = 0
        for b, blk in enumerate(mg.blocks):
            t = blk["t"]
            if t["k"] != "switch" or blk["cleanup"]:
                continue
            vm = A.discr_variants(mg, t["d"])
            if not vm or set(vm.values()) != {"Included", "Excluded", "Unbounded"}:
                continue
            _, labels = A.switch_info(mg, b)
            good = True
            for tg, ns in labels.items():
                for nm in ns:
                    if nm not in ("Included", "Excluded", "Unbounded"):
                        continue
                    # the first Bound aggregate built on that arm has the same variant
                    found = None
                    for x in sorted(A.reach(mg, [tg], avoid=[y for y in range(len(mg.blocks)) if mg.blocks[y]["t"]["k"] == "switch" and y != b])):
                        for st_ in mg.blocks[x]["s"]:
                            if st_["rv"]["k"] == "agg" and st_["rv"].get("adt") == "std::ops::Bound":
                                found = st_["rv"].get("variant")
                                break
                        if found:
                            break
                    if found != nm:
                        good = False
            kinds_ok += 1 if good else -100
        # Read::All only when BOTH bounds are unbounded
        all_b = [b for b, blk in enumerate(mg.blocks) if not blk["cleanup"] for st_ in blk["s"] if st_["rv"]["k"] == "agg" and st_["rv"].get("variant") == "All"]
        eqs = [b for b, t in mg.calls() if A.cname(t).endswith(("::eq", "::ne")) and "Bound" in (A.cname(t) + (t.get("full") or "") + mg.local_ty(A.op_place(t["args"][0])["l"] if A.op_place(t["args"][0]) else 0))]
        ok_all = bool(all_b) and len(eqs) >= 2
        for c in eqs:
            sw = A.switch_after_call(mg, c)
            if sw is None:
                ok_all = False
                continue
            z_, t_ = A.bool_edges(mg, sw)
            unequal = t_ if A.cname(mg.term(c)).endswith("::ne") else z_
            if any(ab in A.reach(mg, list(unequal), avoid=[e for e in eqs if e != c]) for ab in all_b):
                ok_all = False
        ctx.ob("R-C07.14", mg, "mark_range-records-the-range-as-given", ok and kinds_ok >= 2 and ok_all,
               "bounds keep their kind, Read::All only for (Unbounded, Unbounded), push_read on every path" if (ok and kinds_ok >= 2 and ok_all) else
               "mark_range does not record the scanned range as given (push on every path: %s, bound kinds preserved: %s, Read::All only for a fully unbounded range: %s): a boundary key or a whole side of the range is left out of validation" % (ok, kinds_ok >= 2, ok_all))
    # ---- R-C07.15 has_conflict answers `true` exactly on the "a write of the other transaction lies in what I read" edge of each
    # query (contains -> true; range(..).next().is_some() -> true; non-empty set for Read::All)
    if hc:
        og_ = ctx.og(hc)
        true_ret = [b for b, blk in enumerate(hc.blocks) if not blk["cleanup"] for st_ in blk["s"]
                    if st_["p"]["l"] == 0 and not st_["p"]["p"] and st_["rv"]["k"] == "use" and (st_["rv"]["a"].get("const") or {}).get("val") is True]
        tests = []
        for b, t in hc.calls():
            n = A.cname(t)
            if n.endswith("BTreeSet::<T, A>::contains") or n.endswith("RangeToInclusive::<Idx>::contains") or n.endswith("RangeTo::<Idx>::contains"):
                tests.append((b, False, "contains"))
            elif n.endswith("Option::<T>::is_some"):
                tests.append((b, False, "is_some"))
            elif n.endswith("Option::<T>::is_none"):
                tests.append((b, True, "is_none"))
            elif n.endswith("BTreeSet::<T, A>::is_empty"):
                tests.append((b, True, "is_empty"))
        bad = []
        nexts_ = [b for b, t in hc.calls() if A.cname(t).endswith("::next") and A.in_cycle(hc, b)]
        for b, inverted, what in tests:
            sw = A.switch_after_call(hc, b)
            if sw is None:
                bad.append((b, what, "result not branched on"))
                continue
            z_, t_ = A.bool_edges(hc, sw)
            # a `!x` in the source flips the switch operand
            tm_, neg_ = A.strip_not(og_.of_operand(hc.term(sw)["d"]))
            found = (z_ if inverted else t_) if not neg_ else (t_ if inverted else z_)
            notfound = (t_ if inverted else z_) if not neg_ else (z_ if inverted else t_)
            stop = nexts_ + [x for x, _, _ in tests if x != b]
            if not any(tr in A.reach(hc, list(found), avoid=stop) for tr in true_ret):
                bad.append((b, what, "the 'found' edge does not answer true"))
            if any(tr in A.reach(hc, list(notfound), avoid=stop) for tr in true_ret):
                bad.append((b, what, "the 'nothing found' edge answers true"))
        ctx.ob("R-C07.15", hc, "conflict-reported-exactly-when-a-write-is-found", len(tests) >= 10 and not bad,
               "%d queries of the other transaction's write set: each answers true on its 'found' edge only" % len(tests) if (len(tests) >= 10 and not bad) else
               "has_conflict's %s at %s: %s — a conflicting commit goes unnoticed (or every disjoint one is refused)" % (bad[0][1], hc.loc(bad[0][0]), bad[0][2]) if bad else "only %d queries found (10 expected)" % len(tests),
               hc.loc(bad[0][0]) if bad else "")

    # ---- R-C07.8 the single-operation READ helpers of the optimistic tx keyspace are transactions too ("including the
    # single-operation helpers on its keyspaces"): each reads through a read view (db.read_tx()), never through the plain
    # keyspace's latest-state reads (SeqNo::MAX looks into a commit that is still being applied: get(first) can return
    # generation g and a LATER get(last) generation g-1 — no serial order consistent with real time produces that)
    from . import C05
    helpers = [f for fid, f in sorted(F.fns.items()) if fid.startswith("tx::optimistic::keyspace::OptimisticTxKeyspace::") and f.kind != "closure"
               and fid.rsplit("::", 1)[-1] in C05.KS_READS and not fid.endswith("::approximate_len")]  # approximate by contract
    ctx.floor("R-C07.8", "single-operation read helpers of OptimisticTxKeyspace", helpers, 5)
    for fn in helpers:
        bad = [(b, A.cname(t)) for b, t in fn.calls() if A.cname(t).startswith("keyspace::Keyspace::") and A.cname(t).rsplit("::", 1)[-1] in C05.KS_READS]
        via = [b for b, t in fn.calls() if A.cname(t).endswith("OptimisticTxDatabase::read_tx") or A.cname(t).endswith("OptimisticTxDatabase::write_tx")]
        ok = not bad and bool(via)
        ctx.ob("R-C07.8", fn, "single-op-read-goes-through-a-view", ok,
               "reads through db.read_tx()" if ok else "reads the plain keyspace's latest state (%s) instead of a read view: it can observe a commit that is only partly applied" % (bad[0][1] if bad else "no read_tx"),
               fn.loc(bad[0][0]) if bad else "")

    # ---- cross-cutting disciplines (rules/discipline.py)
    from .. import discipline as D
    # a failed commit is never acknowledged
    D.error_discipline(ctx, "R-C07.13", scope=lambda f: f.startswith(("tx::", "<tx::")))

    # ---- borrowed obligations (mechanisms owned by other properties that this property's verdict also rests on)
    # the oracle's instants are the visible seqno: nothing publishes past the generator, or the first commit after it is missed by validation
    ctx.borrow("C06", ["R-C06.1", "R-C06.2", "R-C06.3", "R-C06.4"], "R-C07.9")
    # the meta keyspace publishes exactly what it drew
    ctx.borrow("C11", ["R-C11.4"], "R-C07.10")
    # the committed batch is the transaction's final write set
    ctx.borrow("C08", ["R-C08.4"], "R-C07.11")
    # the single-operation helpers really run (and commit) the operation they are named after
    ctx.borrow("C08", ["R-C08.10"], "R-C07.12", only_instances=["forwarded", "commits", "successful-commit"])

