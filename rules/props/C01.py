"""C01 — ordered-map equivalence under background maintenance (only the thin plumbing layer is decided)."""
from .. import analysis as A
from .. import roles as R
from . import C04

META = {
    "technique": "arm tables of the value-type dispatch + direction-based forwarding table over resolved callees + origin terms",
    "explanation": (
        "The value-level claim (answers equal a sorted reference map) is NOT decided — it quantifies over run-time values "
        "and lsm-tree internals. Decided is the thin layer fjall adds, where a slip silently changes every answer: (1) the "
        "op-kind table at every site that turns a ValueType into a tree operation (batch commit and both replay loops): "
        "Value->insert, Tombstone->remove, WeakTombstone->remove_weak, Indirection diverges, the three sites agreeing arm by "
        "arm; the direct pairs Keyspace::insert = journal Value + tree.insert, Keyspace::remove = journal Tombstone + "
        "tree.remove with the same key/value operands journaled and applied; (2) the forwarding table: each of the ~60 read "
        "wrappers (Keyspace readers, Iter::next/next_back, Guard accessors, Snapshot, BaseTransaction, both transaction "
        "kinds, both tx-keyspace wrappers, the two Readable defaults) forwards to the like-named / same-direction operation "
        "with the caller's key, never to the opposite direction or another read; (3) one fresh seqno per write, journaled = "
        "applied = published (shared with C06)."),
    "not_decided": [
        "that answers equal a reference map; anything inside lsm-tree (merge order, blob indirection, FIFO/leveled compaction)",
        "arithmetic mistakes (e.g. count += 2 in len), interaction of maintenance placement with reads",
    ],
    "assumptions": ["lsm-tree implements an ordered map with MVCC reads at a seqno"],
}

READ_OPS = {"get", "contains_key", "size_of", "first_key_value", "last_key_value", "iter", "range", "prefix", "next", "next_back",
            "is_empty", "len", "key", "value", "size", "into_inner", "into_inner_if", "approximate_len"}
ACCEPT = {
    "get": {"get"}, "contains_key": {"contains_key"}, "size_of": {"size_of"},
    "first_key_value": {"first_key_value", "iter", "range", "prefix", "next"},
    "last_key_value": {"last_key_value", "iter", "range", "prefix", "next_back"},
    "iter": {"iter"}, "range": {"range"}, "prefix": {"prefix", "range"},
    "next": {"next"}, "next_back": {"next_back"},
    "is_empty": {"is_empty", "first_key_value", "key"}, "len": {"iter", "next", "key", "len"},
    "key": {"key"}, "value": {"value"}, "size": {"size"}, "into_inner": {"into_inner"}, "into_inner_if": {"into_inner_if"},
    "approximate_len": {"approximate_len"},
}
REQUIRE = {
    "first_key_value": [{"first_key_value"}, {"next"}], "last_key_value": [{"last_key_value"}, {"next_back"}],
    "is_empty": [{"is_empty"}, {"first_key_value"}], "len": [{"len"}, {"iter"}], "prefix": [{"prefix"}, {"range"}],
}
POINT = {"get", "contains_key", "size_of"}
WRAPPER_TYPES = ("keyspace::Keyspace", "iter::Iter", "guard::Guard", "snapshot::Snapshot", "tx::write_tx::BaseTransaction",
                 "tx::single_writer::write_tx::WriteTransaction", "tx::optimistic::write_tx::WriteTransaction",
                 "tx::single_writer::keyspace::SingleWriterTxKeyspace", "tx::optimistic::keyspace::OptimisticTxKeyspace")


def is_read_provider(t):
    n = A.cname(t)
    c = t.get("callee") or ""
    leaf = n.rsplit("::", 1)[-1]
    if leaf not in READ_OPS:
        return False
    # (the ephemeral Memtable::get of a transaction is an overlay lookup, decided by R-C08.1, not a forwarded read)
    if "AbstractTree" in n or "lsm_tree::Guard" in c or "lsm_tree::Guard" in n:
        return True
    if c in ("std::iter::Iterator::next", "std::iter::DoubleEndedIterator::next_back"):
        full = t.get("full") or ""
        # the wrapped tree iterator (boxed dyn) or an fjall Iter
        return "dyn " in full or "iter::Iter" in full or "Box<" in full
    if c.startswith("readable::Readable::"):
        return True
    for w in WRAPPER_TYPES:
        if n.startswith(w + "::") or n.startswith("<" + w + " as ") or n.startswith("<" + w + "<"):
            return True
    return False


def wrappers(F):
    out = []
    for fid, fn in F.fns.items():
        if fn.kind == "closure":
            continue
        name = fn.d.get("name")
        if name not in READ_OPS:
            continue
        st = (fn.d.get("self_ty") or "").split("<")[0]
        if fn.d.get("trait_default") == "readable::Readable":
            out.append(fn)
        elif st in WRAPPER_TYPES or any(fid.startswith(w + "::") for w in WRAPPER_TYPES):
            if fn.d.get("trait") in (None, "readable::Readable", "std::iter::Iterator", "std::iter::DoubleEndedIterator"):
                out.append(fn)
    return out


def run(ctx):
    F = ctx.F
    # ---- R-C01.1 op-kind table
    tables = {}
    for fid in ("batch::WriteBatch::commit",) + C04.REPLAY:
        fn = ctx.fn(fid, "R-C01.1")
        if not fn:
            continue
        dts = C04.dispatch_table(fn)
        if len(dts) != 1:
            ctx.ob("R-C01.1", fn, "one-value-type-dispatch", False, "expected one match on the item's ValueType, found %d" % len(dts))
            continue
        sw, table = dts[0]
        tables[fid] = {k: v[0] for k, v in table.items()}
        for kind, want in list(C04.KIND_TABLE.items()) + [("Indirection", "<diverges>")]:
            got = table.get(kind, ("?", []))[0]
            ctx.ob("R-C01.1", fn, "kind-%s->%s" % (kind, want), got == want, "ValueType::%s is applied with %s" % (kind, got) + ("" if got == want else " — must be %s" % want))
        if fid == "batch::WriteBatch::commit":
            og = ctx.og(fn)
            for kind, (leaf, blocks) in table.items():
                for b in blocks:
                    args = [og.of_operand(a) for a in fn.term(b)["args"]]
                    ok = A.ends_with_field(args[0], "keyspace", "tree") and A.ends_with_field(args[1], "key") and (leaf != "insert" or A.ends_with_field(args[2], "value"))
                    # all from the same item
                    roots = {A.tkey(a.a[0]) for a in args[1:3] if a.k == "field"}
                    ctx.ob("R-C01.1", fn, "batch-%s-operands-from-the-item" % leaf, ok and len(roots) <= 1, "item.keyspace.tree.%s(item.key%s, seqno)" % (leaf, ", item.value" if leaf == "insert" else "") if ok else "batch apply operands are not the item's own fields", fn.loc(b))
    if len(tables) == 3:
        vals = list(tables.values())
        same = all(v == vals[0] for v in vals)
        ctx.ob("R-C01.1", "<dispatch-siblings>", "three-dispatch-sites-agree", same, "batch commit, active replay and sealed replay use the same table %s" % vals[0] if same else "dispatch sites disagree: %s" % tables)
    journal_kind_rules(ctx, "R-C01.1")

    # ---- R-C01.2 forwarding table
    ws = wrappers(F)
    ctx.floor("R-C01.2", "read wrapper methods", ws, 55)
    for fn in sorted(ws, key=lambda f: f.id):
        name = fn.d["name"]
        og = ctx.og(fn)
        called = []
        for b, t in fn.calls():
            if is_read_provider(t):
                called.append((b, A.cname(t).rsplit("::", 1)[-1], t))
        leafs = {l for _, l, _ in called}
        ctx.count_sites(len(called))
        bad = sorted(leafs - ACCEPT[name])
        need = REQUIRE.get(name, [{name}])
        has = any(req <= leafs for req in need)
        ok = not bad and has
        detail = "%s forwards to {%s}" % (name, ", ".join(sorted(leafs)))
        if bad:
            detail += " — `%s` is the wrong operation/direction for `%s`" % (", ".join(bad), name)
        elif not has:
            detail += " — expected a call to one of %s" % [sorted(r) for r in need]
        ctx.ob("R-C01.2", fn, "forwards-like-named", ok, detail)
        # ... on every path: no answer is given without consulting a read provider (a shortcut that answers from a
        # statistic — table count, approximate length, "memtable is empty" — is a different, weaker question)
        if called:
            # (a write transaction answers point reads from its own overlay first: that lookup is a consult too, R-C08.1)
            overlay = [b for b, t in fn.calls() if A.cname(t).endswith("Memtable::get")]
            r = A.reach(fn, [0], avoid=[b for b, _, _ in called] + overlay + list(A.error_starts(fn)))
            early = [x for x in fn.return_blocks() if x in r]
            ctx.ob("R-C01.2", fn, "answers-only-after-forwarding", not early,
                   "every non-error return follows a call to {%s}" % ", ".join(sorted(leafs)) if not early else
                   "%s can answer without consulting the tree / view it wraps (a path to a return passes none of {%s}): the answer on that path is not the like-named read" % (fn.id, ", ".join(sorted(leafs))),
                   fn.loc(early[0]) if early else "")
        if name in POINT or name in ("range", "prefix"):
            # the key / range parameter is what reaches the callee
            kidx = fn.argc  # last parameter is the key / range / prefix
            for b, l, t in called:
                if l in POINT or l in ("range", "prefix"):
                    okk = any(any(x.k == "param" and x.a[0] == kidx for x in A.walk(og.of_operand(a))) for a in t["args"][1:])
                    ctx.ob("R-C01.2", fn, "forwards-own-%s-to-%s" % ("key" if name in POINT else name, l), okk,
                           "caller's %s reaches %s" % ("key" if name in POINT else "bounds", A.cname(t)[-50:]) if okk else "the %s passed to %s is not the caller's parameter" % ("key" if name in POINT else "range/prefix", A.cname(t)[-50:]), fn.loc(b))
        # keyspace forwarded for Readable impls (parameter 2)
        if fn.d.get("trait") == "readable::Readable":
            for b, l, t in called:
                if "AbstractTree" in A.cname(t):
                    tr = og.of_operand(t["args"][0])
                    okt = A.access_path(tr) == ("P2", "tree")
                    ctx.ob("R-C01.2", fn, "reads-the-given-keyspace#%s" % l, okt, "reads keyspace.tree of the keyspace parameter" if okt else "reads %s instead of the given keyspace" % A.tstr(tr)[:60], fn.loc(b))
                elif (t.get("callee") or "").startswith("readable::Readable::") or "as readable::Readable>::" in A.cname(t):
                    if len(t["args"]) > 1:
                        ka = og.of_operand(t["args"][1])
                        okt = any(x.k == "param" and x.a[0] == 2 for x in A.walk(ka))
                        ctx.ob("R-C01.2", fn, "passes-the-given-keyspace#%s" % l, okt, "passes its keyspace parameter on" if okt else "passes %s as keyspace" % A.tstr(ka)[:60], fn.loc(b))

    # Guard(..) wrapping: Iter::next maps the inner guard, never synthesises one
    # ---- R-C01.3 one fresh seqno per write (same obligations as C06.1, counted here once per entry)
    for fn in R.write_entries(ctx):
        nb = R.seqno_draw_blocks(ctx, fn)
        ok = len(nb) == 1 and not A.in_cycle(fn, nb[0])
        ctx.ob("R-C01.3", fn, "one-fresh-seqno", ok, "one seqno.next() per write operation" if ok else "%d seqno draws" % len(nb), nontrivial=False)

    # ---- R-C01.4 a committed transaction equals its buffered writes: newest write per key, once, for every keyspace (shared with C08)
    from . import C08
    C08.commit_rules(ctx, "R-C01.4")

    # ---- R-C01.5 no write operation silently does nothing: on every success path a write entry point reaches its journal
    # append and its tree apply; the only accepted shortcut is an empty batch (`self.is_empty()` / `self.data.is_empty()`)
    for fn in R.write_entries(ctx):
        og = ctx.og(fn)
        app = R.call_blocks(fn, R.APPEND)
        apply_ = R.apply_blocks(fn)
        errs = list(A.error_starts(fn))
        # blocks building an explicit Err(..) return (is_deleted / poisoned refusals) are error paths as well
        for b, blk in enumerate(fn.blocks):
            if blk["cleanup"]:
                continue
            for st in blk["s"]:
                if st["p"]["l"] == 0 and not st["p"]["p"] and st["rv"]["k"] == "agg" and st["rv"].get("variant") == "Err":
                    errs.append(b)
        # the empty-batch shortcut
        empties = []
        for b, t in fn.calls():
            if A.cname(t).endswith("::is_empty"):
                recv = og.of_operand(t["args"][0])
                ap = A.access_path(recv)
                if ap is not None and ap[0] == "P1" and (len(ap) == 1 or ap[-1] == "data"):
                    sw = A.switch_after_call(fn, b)
                    if sw is not None:
                        zero, true_t = A.bool_edges(fn, sw)
                        empties += list(true_t)
        r = A.reach(fn, [0], avoid=app + errs + empties)
        rets = [x for x in fn.return_blocks() if x in r]
        p_ = A.find_path(fn, [0], rets, avoid=app + errs + empties) if rets else None
        ctx.ob("R-C01.5", fn, "no-silent-no-op-before-the-journal", bool(app) and not rets,
               "every success path journals the operation (an empty batch aside)" if (app and not rets)
               else "a success path returns Ok without journaling or applying the operation (bb%s): the write is acknowledged and silently dropped" % "->bb".join(map(str, p_ or [])))
        if app and apply_:
            r2 = A.reach(fn, [s_ for a in app for s_ in fn.succs(a)], avoid=apply_ + errs)
            # a batch applies in a loop: the loop may run zero times only if the batch is empty (excluded above);
            # for single operations the apply must be on every success path after the append
            rets2 = [x for x in fn.return_blocks() if x in r2] if not any(A.in_cycle(fn, a) for a in apply_) else []
            ctx.ob("R-C01.5", fn, "journaled-operation-is-applied", not rets2,
                   "after the append every success path applies the operation to the tree" if not rets2 else "the operation can be journaled and acknowledged without being applied to the tree", nontrivial=bool(rets2))

    # ---- R-C01.9 the two derived answers of the Readable defaults: is_empty = "no first key" and len = one per element
    ie = ctx.fn("readable::Readable::is_empty", "R-C01.9")
    if ie:
        ret = ctx.og(ie).of_local(0)
        calls = [x.a[0] for x in A.walk(ret) if x.k == "call"]
        ok = any(c.endswith("Option::<T>::is_none") for c in calls) and not any(c.endswith("Option::<T>::is_some") for c in calls) and any(c == "readable::Readable::first_key_value" for c in calls) \
            and not any(x.k == "un" and x.a[0] == "Not" for x in A.walk(ret))
        ctx.ob("R-C01.9", ie, "is_empty-means-no-first-key", ok, "is_empty = first_key_value(..).is_none()" if ok else "Readable::is_empty is not `first_key_value(..) is None`: %s" % A.tstr(ret)[:120])
    ln = ctx.fn("readable::Readable::len", "R-C01.9")
    if ln:
        ogl = ctx.og(ln)
        adds = [(b, st) for b, blk in enumerate(ln.blocks) if not blk["cleanup"] for st in blk["s"] if st["rv"]["k"] == "bin" and str(st["rv"].get("op", "")).startswith(("Add", "Sub", "Mul"))]
        ok = len(adds) == 1 and str(adds[0][1]["rv"]["op"]).startswith("Add") and A.in_cycle(ln, adds[0][0]) and (adds[0][1]["rv"]["b"].get("const") or {}).get("val") == 1
        it = [b for b, t in ln.calls() if A.cname(t) == "readable::Readable::iter"]
        ctx.ob("R-C01.9", ln, "len-counts-one-per-element", ok and bool(it), "len = number of elements of iter(): count += 1 per element" if (ok and it) else "Readable::len does not add exactly 1 per element of iter()")
        if ok:
            a = adds[0][1]["rv"]["a"]
            cl = (a.get("copy") or a.get("move") or {}).get("l")
            inits = [st["rv"]["a"]["const"].get("val") for b, blk in enumerate(ln.blocks) if not blk["cleanup"] and not A.in_cycle(ln, b)
                     for st in blk["s"] if st["p"]["l"] == cl and not st["p"]["p"] and st["rv"]["k"] == "use" and "const" in st["rv"]["a"]]
            ctx.ob("R-C01.9", ln, "len-starts-at-zero", inits == [0], "the count starts at 0" if inits == [0] else
                   "the count Readable::len adds to starts at %s, not 0: every len() is off by that much" % inits)

    # ---- cross-cutting disciplines (rules/discipline.py)
    from .. import discipline as D
    # a read that fails must say so (a swallowed error in len()/is_empty() is a wrong answer)
    D.error_discipline(ctx, "R-C01.8", scope=lambda f: f.startswith(("readable::", "<snapshot::", "snapshot::", "iter::", "<iter::", "guard::", "keyspace::Keyspace::")))

    # ---- R-C01.11 the write builders record what they are named for (the batch item kinds, the ingestion wrappers, the
    #      overlay's tombstone filter): a `remove` that queues a Value, or a wrapper that hands on another key, changes answers
    write_builders(ctx, "R-C01.11")

    # ---- borrowed obligations (mechanisms owned by other properties that this property's verdict also rests on)
    # all items of a batch share one seqno: their order decides which write to a key wins
    ctx.borrow("C04", ["R-C04.8"], "R-C01.10")
    # journal rotation is invisible only if no sealed journal is deleted while a keyspace still needs it
    ctx.borrow("C10", ["R-C10.1"], "R-C01.6")
    # point reads and scans agree only if both read at a view instant
    ctx.borrow("C14", ["R-C14.6"], "R-C01.7")


def journal_kind_rules(ctx, rule):
    """what a single write journals is what it applies (shared with C04: replay applies by the journaled kind)"""
    for fid, kind, leaf in (("keyspace::Keyspace::insert", "Value", "insert"), ("keyspace::Keyspace::remove", "Tombstone", "remove"),
                            ("keyspace::Keyspace::remove_weak", "WeakTombstone", "remove_weak")):
        fn = ctx.fn(fid, rule)
        if not fn:
            continue
        og = ctx.og(fn)
        wr = R.call_blocks(fn, (R.WRITER + "::write_raw",))
        ap = R.apply_blocks(fn)
        ok = False
        detail = "entry lacks write_raw or the tree apply"
        if wr and ap:
            wa = [og.of_operand(a) for a in fn.term(wr[0])["args"]]
            aa = [og.of_operand(a) for a in fn.term(ap[0])["args"]]
            kinds = A.variants_in(wa[4], "ValueType")
            aleaf = A.cname(fn.term(ap[0])).rsplit("::", 1)[-1]
            samekey = A.tkey(wa[2]) == A.tkey(aa[1])
            sameval = True
            if leaf == "insert":
                sameval = A.tkey(wa[3]) == A.tkey(aa[2])
            else:
                # a tombstone is journaled with an empty value
                sameval = not any(x.k == "param" for x in A.walk(wa[3]))
            ok = kinds == {kind} and aleaf == leaf and samekey and sameval
            detail = "journals ValueType::%s and applies tree.%s with the same key%s" % (kind, leaf, "/value" if leaf == "insert" else "") if ok else \
                "journal kind %s vs apply %s; same key=%s same value=%s — what is recovered after a crash differs from what was applied" % (sorted(kinds), aleaf, samekey, sameval)
        ctx.ob(rule, fn, "journal-kind-equals-apply-kind", ok, detail)


BUILDERS = (("batch::WriteBatch::insert", "Value", True), ("batch::WriteBatch::remove", "Tombstone", False),
            ("batch::WriteBatch::remove_weak", "WeakTombstone", False))
INGEST = ("write", "write_tombstone", "write_weak_tombstone")


def _params(t):
    return {x.a[0] for x in A.walk(t) if x.k == "param"}


def write_builders(ctx, rule):
    F = ctx.F
    n = 0
    # (1) batch builders: exactly one item is queued per call, on every path, built from the caller's keyspace / key / value
    #     and the kind the method is named for
    for fid, kind, has_value in BUILDERS:
        fn = ctx.fn(fid, rule)
        if not fn:
            continue
        og = ctx.og(fn)
        news = [(b, t) for b, t in fn.calls() if A.cname(t) == "batch::item::Item::new"]
        push = [(b, t) for b, t in fn.calls() if A.cname(t).endswith("::push") and "Vec" in A.cname(t)]
        ok = len(news) == 1 and len(push) == 1
        detail = "%d Item::new / %d push calls (want one of each)" % (len(news), len(push))
        if ok:
            a = [og.of_operand(x) for x in news[0][1]["args"]]
            pa = [og.of_operand(x) for x in push[0][1]["args"]]
            kinds = A.variants_in(a[3], "ValueType")
            want_val = _params(a[2]) == {4} if has_value else not _params(a[2])
            pushed_new = any(x.k == "call" and x.a[0] == "batch::item::Item::new" for x in A.walk(pa[1]))
            into_data = A.tstr(pa[0]).endswith(".data") and _params(pa[0]) == {1}
            every = all(A.dominates(fn, push[0][0], rb) for rb in fn.return_blocks()) and not A.in_cycle(fn, push[0][0])
            # nothing else touches the queue (a builder that pops / retains / clears rewrites earlier calls)
            other = [A.cname(t).rsplit("::", 1)[-1] for b, t in fn.calls() if "Vec" in A.cname(t) and b != push[0][0] and
                     A.cname(t).rsplit("::", 1)[-1] in ("pop", "clear", "truncate", "remove", "swap_remove", "retain", "retain_mut", "drain", "insert", "dedup", "dedup_by", "dedup_by_key", "split_off", "set_len")]
            ok = kinds == {kind} and _params(a[0]) == {2} and _params(a[1]) == {3} and want_val and pushed_new and into_data and every and not other
            detail = ("queues Item(keyspace, key, %s, ValueType::%s) exactly once" % ("value" if has_value else "<empty>", kind)) if ok else \
                "builds Item::new(%s) and pushes %s into %s (on every path: %s; other queue mutations: %s) — the batch would not do what `%s` says" % (
                    ", ".join(A.tstr(x)[:40] for x in a), A.tstr(pa[1])[:60], A.tstr(pa[0])[:30], every, other, fid.rsplit("::", 1)[-1])
        n += 1
        ctx.ob(rule, fn, "queues-one-item-of-its-own-kind", ok, detail)
    # Item::new keeps the four components apart
    fn = ctx.fn("batch::item::Item::new", rule)
    if fn:
        og = ctx.og(fn)
        ret = og.of_local(0)
        fields = {}
        for x in A.walk(ret):
            if x.k == "agg" and "Item" in str(x.a[0]):
                for nm, v in (x.a[1] or ()):
                    fields[nm] = _params(v)
        want = {"keyspace": {1}, "key": {2}, "value": {3}, "value_type": {4}}
        ok = all(fields.get(k) == v for k, v in want.items())
        n += 1
        ctx.ob(rule, fn, "components-stay-apart", ok, "Item{keyspace,key,value,value_type} = the four arguments in order" if ok else
               "Item::new stores %s (want keyspace<-1, key<-2, value<-3, value_type<-4)" % fields)
    # (2) the ingestion wrappers forward to the like-named operation with the caller's operands, on every path
    for leaf in INGEST:
        cands = [f for f in F.fns if f.startswith("ingestion::Ingestion") and f.endswith("::" + leaf)]
        if len(cands) != 1:
            ctx.fn("ingestion::Ingestion::" + leaf, rule)
            continue
        fn = ctx.fn(cands[0], rule)
        og = ctx.og(fn)
        fw = [(b, t) for b, t in fn.calls() if "Ingestion" in A.cname(t) and A.cname(t).startswith("lsm_tree::")]
        ok = len(fw) == 1 and A.cname(fw[0][1]).rsplit("::", 1)[-1] == leaf
        detail = "forwards to %s" % [A.cname(t) for _, t in fw]
        if ok:
            a = [og.of_operand(x) for x in fw[0][1]["args"]]
            ok = all(_params(a[i]) == {i + 1} for i in range(len(a))) and len(a) == fn.argc and \
                all(A.dominates(fn, fw[0][0], rb) for rb in fn.return_blocks())
            retp = any(x.k == "call" and x.a[0] == A.cname(fw[0][1]) for x in A.walk(og.of_local(0)))
            ok = ok and retp
            detail = "inner.%s(%s), its result returned" % (leaf, ", ".join(A.tstr(x)[:20] for x in a[1:])) if ok else \
                "calls %s(%s); result returned: %s" % (A.cname(fw[0][1]), ", ".join(A.tstr(x)[:30] for x in a), retp)
        n += 1
        ctx.ob(rule, fn, "forwards-to-the-like-named-ingestion-op", ok, detail)
    # (3) the overlay's tombstone filter: None exactly when the overlay entry is a tombstone
    fn = ctx.fn("tx::write_tx::ignore_tombstone_value", rule)
    if fn:
        og = ctx.og(fn)
        cb = [b for b, t in fn.calls() if A.cname(t).endswith("InternalValue::is_tombstone")]
        ok = False
        detail = "is_tombstone is not what decides"
        if len(cb) == 1:
            sw = A.switch_after_call(fn, cb[0])
            if sw is not None:
                edges = A.bool_edges(fn, sw)
                if edges and edges[0] and edges[1]:
                    t_false, t_true = edges[0][0], edges[1][0]
                    def answers(start):
                        out = set()
                        r = A.reach(fn, [start])
                        for b in r:
                            for st in fn.blocks[b]["s"]:
                                if st["p"]["l"] == 0 and not st["p"]["p"] and st["rv"]["k"] == "agg":
                                    out.add(st["rv"].get("variant"))
                        return out
                    a_t, a_f = answers(t_true), answers(t_false)
                    ok = a_t == {"None"} and a_f == {"Some"}
                    detail = "tombstone -> None, anything else -> Some(item)" if ok else "tombstone -> %s, other -> %s" % (sorted(a_t), sorted(a_f))
        n += 1
        ctx.ob(rule, fn, "none-exactly-for-a-tombstone", ok, detail)
    ctx.floor(rule, "write builders examined", n, 8)
