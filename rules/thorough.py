"""Thorough-tier extras: E3 type-level witnesses (compile_fail doc-tests with compiling twins) and the E4 self-test."""
import json, os, re, shutil, subprocess, sys, time

from . import extract

VERIF = extract.VERIF
WITNESS_DIR = os.path.join(VERIF, "witness")

# which witnesses speak for which property
WITNESS_PROPS = {
    "C03": ["BatchIsConsumedByCommit", "SingleWriterTxIsConsumed", "OptimisticTxIsConsumed"],
    "C08": ["BatchIsConsumedByCommit", "SingleWriterTxIsConsumed", "OptimisticTxIsConsumed", "SingleWriterTxBorrowsItsDatabase"],
    "C05": ["IterOwnsItsSnapshot", "InternalsAreSealed"],
    "C13": ["InternalsAreSealed"],
    "C14": ["InternalsAreSealed"],
}
MIN_WITNESSES = 16


def run_witnesses(pid):
    names = WITNESS_PROPS.get(pid)
    if not names:
        return None
    t0 = time.time()
    try:
        shutil.copy(os.path.join(extract.REPO, "Cargo.lock"), os.path.join(WITNESS_DIR, "Cargo.lock"))
    except OSError:
        pass
    env = dict(os.environ, CARGO_TARGET_DIR=os.path.join(extract.CACHE, "target-witness"), CARGO_NET_OFFLINE="true", CARGO_INCREMENTAL="0")
    env.pop("RUSTC_WRAPPER", None)
    env.pop("RUSTC_WORKSPACE_WRAPPER", None)
    env.pop("RUSTFLAGS", None)
    r = subprocess.run(["cargo", "+nightly", "test", "--doc", "--offline"], cwd=WITNESS_DIR, env=env,
                       stdout=subprocess.PIPE, stderr=subprocess.STDOUT, text=True)
    res = {}
    for m in re.finditer(r"^test src/lib\.rs - (\w+) \(line (\d+)\)(?: - ([\w ]+))? \.\.\. (\w+)", r.stdout, re.M):
        res.setdefault(m.group(1), []).append((m.group(2), m.group(3) or "", m.group(4)))
    total = sum(len(v) for v in res.values())
    failed = {}
    if total < MIN_WITNESSES:
        return {"summary": {"ran": total, "wall_s": round(time.time() - t0, 1)}, "failed": {},
                "error": "only %d of %d witnesses ran (does /repo build?)\n%s" % (total, MIN_WITNESSES, r.stdout[-1500:])}
    for n in names:
        for line, kind, status in res.get(n, []):
            if status != "ok":
                failed["%s@%s" % (n, kind.strip().replace(" ", "_") or "run")] = "doc-test at witness/src/lib.rs:%s (%s) -> %s" % (line, kind, status)
        if n not in res:
            failed[n] = "witness did not run"
    mine = sum(len(res.get(n, [])) for n in names)
    return {"summary": {"ran": mine, "passed": mine - len(failed), "witnesses": names, "wall_s": round(time.time() - t0, 1),
                        "cmd": "cargo +nightly test --doc --offline (witness/)"}, "failed": failed, "error": None}


def run_selftest(pid):
    """runs the mutation corpus of this property (break mutants must be reported, equivalent refactors must stay silent)"""
    t0 = time.time()
    out = os.path.join(extract.CACHE, "selftest-%s.json" % pid)
    r = subprocess.run([sys.executable, os.path.join(VERIF, "selftest", "run.py"), "--prop", pid, "--json", out, "--jobs", "8"],
                       stdout=subprocess.PIPE, stderr=subprocess.STDOUT, text=True)
    try:
        with open(out) as f:
            d = json.load(f)
    except OSError:
        return {"summary": {"error": r.stdout[-500:]}, "bad": ["selftest did not run"]}
    bad = ["%s %s: %s" % (x["status"], x["id"], x["detail"][:160]) for x in d["records"] if x["status"] in ("MISSED", "FALSE-ALARM", "invalid")]
    s = d["summary"]
    s["wall_s"] = round(time.time() - t0, 1)
    s["skipped_ids"] = [x["id"] for x in d["records"] if x["status"] == "skipped"]
    return {"summary": s, "bad": bad}
