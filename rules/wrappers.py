"""The transactional database types are thin wrappers around `Database`: every public method that has a counterpart on
`Database` hands its own arguments, in order, to that counterpart on every path and answers with what it returned.
(A wrapper that substitutes default options, another name or a fixed mode silently changes what the user configured.)"""
from . import analysis as A

WRAPPER_TYPES = ("tx::single_writer::TxDatabase::", "tx::optimistic::OptimisticTxDatabase::")
# wrapper leaf -> Database leaf where the names differ
RENAMED = {"read_tx": "snapshot"}


def _params(t):
    return {x.a[0] for x in A.walk(t) if x.k == "param"}


def db_wrapper_forwarding(ctx, rule, only=None, floor=None):
    F = ctx.F
    n = 0
    for fid, fn in sorted(F.fns.items()):
        if fn.kind == "closure" or not fid.startswith(WRAPPER_TYPES):
            continue
        leaf = fid.rsplit("::", 1)[-1]
        if only is not None and leaf not in only:
            continue
        target = "db::Database::" + RENAMED.get(leaf, leaf)
        if target not in F.fns and not any(f.startswith(target + "::<") for f in F.fns):
            continue  # no counterpart on Database (builder, inner, write_tx, open)
        og = ctx.og(fn)
        fw = [(b, t) for b, t in fn.calls() if A.cname(t).split("::<")[0] == target]
        ok = len(fw) == 1
        detail = "%s calls %s %d time(s)" % (fid, target, len(fw))
        if ok:
            b0, t0 = fw[0]
            a = [og.of_operand(x) for x in t0["args"]]
            inner = len(a) >= 1 and _params(a[0]) == {1} and A.tstr(a[0]).endswith(".inner")
            rest = len(a) == fn.argc and all(_params(a[i]) == {i + 1} and A.tstr(a[i]).startswith("P%d" % (i + 1)) for i in range(1, len(a)))
            errs = list(A.error_starts(fn))
            every = all(A.dominates(fn, b0, rb) for rb in fn.return_blocks()) and not A.in_cycle(fn, b0)
            answered = any(x.k == "call" and x.a[0].split("::<")[0] == target for x in A.walk(og.of_local(0)))
            ok = inner and rest and every and answered
            detail = "%s(self.inner%s), its answer handed back" % (target, "".join(", " + A.tstr(x)[:24] for x in a[1:])) if ok else \
                "calls %s(%s) [self.inner first: %s; own arguments in order: %s; on every path: %s; answer handed back: %s]" % (
                    target, ", ".join(A.tstr(x)[:40] for x in a), inner, rest, every, answered)
        n += 1
        ctx.ob(rule, fn, "forwards-own-arguments-to-Database-%s" % RENAMED.get(leaf, leaf), ok, detail, fn.loc(fw[0][0]) if fw else "")
    ctx.floor(rule, "transactional database wrappers examined", n, floor if floor is not None else (2 * len(only) if only else 18))
    return n
