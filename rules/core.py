"""Rule-engine core: obligation bookkeeping, fail-closed anchors and floors, evidence, known findings."""
import json, os, re, time, hashlib

from . import analysis as A

VERIF = os.path.dirname(os.path.dirname(os.path.abspath(__file__)))


class Obligation:
    __slots__ = ("prop", "rule", "fn", "instance", "ok", "detail", "loc", "nontrivial", "cfgs", "kind")

    def __init__(self, prop, rule, fn, instance, ok, detail, loc, nontrivial, kind="rule"):
        self.prop = prop
        self.rule = rule
        self.fn = fn
        self.instance = instance
        self.ok = ok
        self.detail = detail
        self.loc = loc
        self.nontrivial = nontrivial
        self.cfgs = []
        self.kind = kind

    @property
    def key(self):
        # no line numbers, no block numbers: stable under unrelated edits
        return "%s:%s:%s:%s" % (self.prop, self.rule, self.fn, self.instance)

    def to_json(self):
        return {"key": self.key, "property": self.prop, "rule": self.rule, "function": self.fn,
                "instance": self.instance, "holds": self.ok, "detail": self.detail, "loc": self.loc,
                "kind": self.kind, "cfgs": self.cfgs}


class Ctx:
    def __init__(self, prop, facts, cfg="default", tier="quick"):
        self.prop = prop
        self.F = facts
        self.cfg = cfg
        self.tier = tier
        self.obs = []
        self.fns_touched = set()
        self.sites = 0
        self.rules = {}
        self._cg = None
        self._og = {}

    # ---- shared analyses
    @property
    def cg(self):
        if self._cg is None:
            self._cg = A.CallGraph(self.F)
        return self._cg

    def og(self, fn):
        o = self._og.get(fn.id)
        if o is None:
            o = A.Origins(fn)
            self._og[fn.id] = o
        return o

    def fn(self, fid, rule="anchor"):
        """anchor lookup: a named function the rules depend on. Missing => fail closed."""
        f = self.F.fns.get(fid)
        if f is None:
            self.ob(rule, fid, "anchor-present", False,
                    "anchor function `%s` not found in the analysed program (renamed/removed?): the rule cannot be evaluated, failing closed" % fid,
                    kind="anchor")
            return None
        self.fns_touched.add(fid)
        return f

    # ---- obligations
    def ob(self, rule, fn, instance, ok, detail="", loc="", nontrivial=True, kind="rule"):
        fid = fn.id if hasattr(fn, "id") else fn
        if hasattr(fn, "id"):
            self.fns_touched.add(fid)
            if not loc:
                loc = fn.loc()
        o = Obligation(self.prop, rule, fid, instance, bool(ok), detail, loc, nontrivial, kind)
        o.cfgs = [self.cfg]
        self.obs.append(o)
        self.rules.setdefault(rule, [0, 0])
        self.rules[rule][0] += 1
        if ok:
            self.rules[rule][1] += 1
        return bool(ok)

    def floor(self, rule, role, found, floor):
        """fail closed when a role matches fewer instances than were confirmed by hand"""
        n = found if isinstance(found, int) else len(found)
        self.ob(rule, "<floor>", role, n >= floor,
                "role `%s` matched %d instance(s); at least %d were confirmed on the reference tree%s" % (
                    role, n, floor, "" if n >= floor else " — the rule would pass vacuously, failing closed"),
                nontrivial=False, kind="floor")
        return n >= floor

    def count_sites(self, n=1):
        self.sites += n

    # ---- borrowing: a property's verdict also rests on mechanisms that another property "owns" (a batch is only atomic across
    # crashes if no journal is deleted early; a snapshot is only frozen if nothing publishes past the generator; ...).  The
    # borrowed obligations are re-evaluated on the same fact base and re-labelled with a rule id of the borrowing property, so
    # that the check of THIS property reports the change, not only the owner's.
    _borrowing = False

    def borrow(self, owner, rules, as_rule, only_instances=None, skip_instances=()):
        """import the obligations of `owner`'s rules (ids or prefixes) as obligations `as_rule` of this property"""
        if Ctx._borrowing:
            return 0
        cache = getattr(self.F, "_borrow_cache", None)
        if cache is None:
            cache = {}
            try:
                self.F._borrow_cache = cache
            except Exception:
                pass
        sub = cache.get((owner, self.cfg, self.tier))
        if sub is None:
            import importlib
            mod = importlib.import_module("rules.props." + owner)
            sub = Ctx(owner, self.F, self.cfg, self.tier)
            sub._cg = self._cg
            Ctx._borrowing = True
            try:
                mod.run(sub)
            finally:
                Ctx._borrowing = False
            cache[(owner, self.cfg, self.tier)] = sub
            if self._cg is None:
                self._cg = sub._cg
        n = 0
        for o in sub.obs:
            if not any(o.rule == r or (o.rule.startswith(r) and not o.rule[len(r):len(r) + 1].isdigit()) for r in rules):
                continue
            if only_instances and not any(k in o.instance for k in only_instances):
                continue
            if any(k in o.instance for k in skip_instances):
                continue
            n += 1
            self.ob(as_rule, o.fn, o.instance, o.ok, o.detail + " [= %s of %s]" % (o.rule, owner), o.loc, o.nontrivial, o.kind)
            self.fns_touched.add(o.fn)
        self.ob(as_rule, "<floor>", "borrowed from %s %s" % (owner, "+".join(rules)), n > 0,
                "%d obligation(s) of %s %s re-evaluated for this property" % (n, owner, ",".join(rules)) if n else "nothing matched %s %s: the borrowed rules were renamed — failing closed" % (owner, rules),
                nontrivial=False, kind="floor")
        return n


def run_module(mod, ctx):
    """evaluate a property module; a rule that cannot read the code in front of it (an exception inside the rule) fails CLOSED:
    it is reported as a violated anchor obligation, like a renamed anchor function, never as a silent pass or a crashed check"""
    import traceback
    try:
        mod.run(ctx)
    except SystemExit:
        raise
    except Exception as e:  # noqa: BLE001
        tb = traceback.extract_tb(e.__traceback__)
        where = next((f for f in reversed(tb) if "/rules/props/" in f.filename), tb[-1])
        ctx.ob("engine", "<rule-engine>", "rules-of-%s-evaluate-on-this-tree" % os.path.basename(where.filename).replace(".py", ""), False,
               "a rule could not be evaluated on this tree (%s: %s at %s:%d): the code it reads has a shape the rule does not know (an anchor changed) — failing closed" % (
                   type(e).__name__, str(e)[:80], os.path.basename(where.filename), where.lineno), kind="anchor")


# ------------------------------------------------------------------ known findings
def load_known():
    p = os.path.join(VERIF, "known_findings.json")
    if not os.path.exists(p):
        return {"known": [], "fixed": []}
    with open(p) as f:
        return json.load(f)


def safe_name(key):
    s = re.sub(r"[^A-Za-z0-9_.-]+", "_", key)
    if len(s) > 150:
        s = s[:110] + "_" + hashlib.sha1(key.encode()).hexdigest()[:12]
    return s
