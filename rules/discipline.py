"""Cross-cutting disciplines decided on the whole program (shared by several properties):

error_discipline    no Result is discarded (`.ok()`, `let _ =`, never looked at) outside a reviewed table of sites.
                    A swallowed storage / recovery / commit error turns a failure into an acknowledgement.
loops_visit_all     the loops that carry data between journal, tables and memtables (replay, directory scans, watermark
                    checks, the commit's item loops) visit EVERY element: no `break`-like exit, no element-dropping adaptor
                    (`skip`, `take`, `step_by`, `filter`, `skip_while`, `take_while`) on the iterated collection.
"""
from . import analysis as A

# callee-wide exemptions: a closed / full worker queue means the database is shutting down or the message is advisory
QUEUE = ("flume::Sender::<T>::send", "flume::Sender::<T>::try_send", "flume::Receiver::<T>::try_recv", "flume::Receiver::<T>::recv",
         # a poisoned std lock is not a storage error (the panic that poisoned it is handled by PoisonDart)
         "std::sync::Mutex::<T>::lock", "std::sync::RwLock::<T>::read", "std::sync::RwLock::<T>::write")
# (function, callee) -> reason.  Every entry was read; nothing else in the crate discards a Result.
SWALLOW_OK = {
    ("<locked_file::LockedFileGuardInner as std::ops::Drop>::drop", "std::fs::File::unlock"): "unlock failure in Drop is logged; the descriptor is closed right after, which releases the lock anyway",
    ("db::Database::recover", "<lsm_tree::AnyTree as lsm_tree::AbstractTree>::clear"): "replayed clear of a keyspace: failure leaves older data, logged upstream (pre-existing; C04 decides the replay itself)",
    ("db_config::Config::new", "std::thread::available_parallelism"): "falls back to one core",
    ("meta_keyspace::MetaKeyspace::create_keyspace", "meta_keyspace::MetaKeyspace::maintenance"): "best-effort compaction of the meta tree after the rows were written durably",
    ("meta_keyspace::MetaKeyspace::remove_keyspace", "meta_keyspace::MetaKeyspace::maintenance"): "best-effort compaction of the meta tree after the rows were removed durably",
    ("worker_pool::WorkerPool::join", "std::thread::JoinHandle::<T>::join"): "the worker's own error already poisoned the database in its loop; drop only waits for the thread to be gone",
    ("version::FormatVersion::parse_file_header", "<version::FormatVersion as std::convert::TryFrom<u8>>::try_from"): "an unknown version byte becomes None = refused",
}


def result_sites(fn):
    for b, t in fn.calls():
        if t["dest"]["p"]:
            continue
        ty = fn.local_ty(t["dest"]["l"])
        if not ty.startswith("std::result::Result<"):
            continue
        name = A.cname(t)
        if A.is_transparent(name) or name.endswith(("::branch", "::from_residual")) or any(name.endswith(s) for s in A.ERR_ADAPTERS + A.OK_ADAPTERS):
            continue
        yield b, t, name, ty


def error_discipline(ctx, rule, scope=None, floor=None):
    """scope: predicate on the function id (None = whole crate)"""
    F = ctx.F
    n = 0
    for fid, fn in sorted(F.fns.items()):
        if scope is not None and not scope(fid):
            continue
        if fid.startswith("<") and fid.endswith("::fmt"):
            continue
        idx = {}
        for b, t, name, ty in result_sites(fn):
            n += 1
            ctx.count_sites()
            rf = A.result_flow(fn, b)
            if not rf.swallowed:
                continue
            leaf = name.rsplit("::", 1)[-1].split("<")[0]
            idx[leaf] = idx.get(leaf, 0) + 1
            root = fid.split("::{closure")[0]
            if name in QUEUE:
                continue
            why = SWALLOW_OK.get((fid, name)) or SWALLOW_OK.get((root, name))
            ctx.ob(rule, fn, "result-of-%s#%d-is-not-discarded" % (leaf, idx[leaf]), why is not None,
                   "reviewed exception: %s" % why if why else
                   "the Result of %s is discarded (%s): when it fails, %s goes on as if it had succeeded — the failure is neither reported to the caller nor does it stop the database" % (
                       name, ",".join(x.rsplit("::", 1)[-1] for x in rf.chain)[:40] or "never looked at", fid),
                   fn.loc(b), nontrivial=why is None)
    if floor:
        ctx.floor(rule, "Result-returning call sites examined", n, floor)
    ctx.ob(rule, "<crate>", "no-result-discarded-outside-the-reviewed-table", not any(o.rule == rule and not o.ok and o.kind == "rule" for o in ctx.obs),
           "%d Result-returning call sites examined; the only discarded ones are queue sends and %d reviewed sites" % (n, len(SWALLOW_OK)), nontrivial=False)
    return n


DROPPING = ("::skip", "::take", "::step_by", "::filter", "::skip_while", "::take_while", "::filter_map", "::nth", "::last", "::chunks")
# loops that must visit every element: function -> reason
VISIT_ALL = {
    "db::Database::recover": "every journal batch, every item of a batch and every keyspace take part in replay / seqno restore / flush queuing",
    "recovery::recover_sealed_memtables": "every sealed journal, batch and item is replayed; every keyspace's watermark is recorded",
    "recovery::recover_keyspaces": "every keyspace folder is looked at (a skipped folder is a keyspace missing after reopen)",
    "journal::recovery::recover_journals": "every journal file is discovered",
    "journal::manager::JournalManager::maintenance": "every watermark of a sealed journal is checked before the journal is deleted",
    "journal::manager::JournalManager::get_keyspaces_to_flush_for_oldest_journal_eviction": "every lagging keyspace is asked to rotate",
    "supervisor::Supervisor::build_seqno_map": "every keyspace's memtable seqno is captured when a journal is sealed",
    "batch::WriteBatch::commit": "every item of the batch is applied",
    "tx::write_tx::BaseTransaction::commit": "every keyspace and every final write of the transaction reaches the batch",
    "journal::writer::Writer::write_batch": "every item of the batch is journaled",
    "db::Database::holds_database_files": "every directory entry is looked at",
    "keyspace::Keyspace::inner_rotate_memtable": "every keyspace's version history is maintained",
}


def natural_loop(fn, h):
    """blocks of the (innermost) loop headed by block h: h plus everything that reaches a latch (a predecessor of h that h
    dominates) without passing through h — nested loops are told apart, unlike with SCCs"""
    preds = {}
    for b in range(len(fn.blocks)):
        if fn.blocks[b]["cleanup"]:
            continue
        for s_ in fn.succs(b):
            preds.setdefault(s_, []).append(b)
    latches = [p for p in preds.get(h, []) if A.dominates(fn, h, p)]
    if not latches:
        return None
    body = {h}
    work = list(latches)
    while work:
        b = work.pop()
        if b in body:
            continue
        body.add(b)
        work.extend(preds.get(b, []))
    return body


def loops_visit_all(ctx, rule, only=None):
    F = ctx.F
    n = 0
    for fid, reason in sorted(VISIT_ALL.items()):
        if only is not None and fid not in only:
            continue
        fn = F.fns.get(fid)
        if fn is None:
            # generic-method ids carry their parameters: look for a unique prefix match
            cands = [f for f in F.fns if f.split("::<")[0] == fid or f.startswith(fid + "::<")]
            fn = F.fns[cands[0]] if len(cands) == 1 else None
        if fn is None:
            ctx.fn(fid, rule)
            continue
        og = ctx.og(fn)
        heads = [b for b, t in fn.calls() if A.cname(t).endswith("::next") and "Iterator" in A.cname(t) and A.in_cycle(fn, b)]
        bad = []
        err_region = A.reach(fn, list(A.error_starts(fn)))
        for h in heads:
            comp = natural_loop(fn, h)
            sw = A.switch_after_call(fn, h)
            if comp is None or sw is None:
                continue
            _, labels = A.switch_info(fn, sw)
            none_t = [tg for tg, ns in labels.items() if "None" in ns]
            if not none_t:
                continue
            n += 1
            after = none_t[0]
            # what follows the loop: the calls made there and the Ok(..) it finally answers — an exit edge that gets THERE
            # (rather than into an early `return Err`) is a `break`
            post = A.reach(fn, [after], avoid=[h])  # (not what a later round of an enclosing loop reaches through this loop again)
            cont = {x for x in post if x not in comp and (fn.term(x)["k"] == "call" or any(
                st_["p"]["l"] == 0 and not st_["p"]["p"] and st_["rv"]["k"] == "agg" and st_["rv"].get("variant") in ("Ok", "Some") for st_ in fn.blocks[x]["s"]))}
            for u in comp:
                for v in fn.succs(u):
                    if v in comp or fn.blocks[v]["cleanup"] or (u == sw and v == after):
                        continue
                    if v in err_region:
                        continue  # an early `return Err(..)` / `?`
                    if v == after or after in A.reach(fn, [v], avoid=[h]) or (cont & A.reach(fn, [v], avoid=[h])):
                        bad.append(("the loop at %s can be left early (a `break`: bb%d -> bb%d)" % (fn.loc(h), u, v), fn.loc(u)))
            # element-dropping adaptors on the iterated collection
            it = og.of_operand(fn.term(h)["args"][0])
            for x in A.walk(it):
                if x.k == "call" and any(x.a[0].split("::<")[0].endswith(s) or (s + "<") in x.a[0] for s in DROPPING) and ("Iterator" in x.a[0] or "iter::" in x.a[0] or "slice::" in x.a[0]):
                    bad.append(("the loop at %s iterates through %s, which drops elements" % (fn.loc(h), x.a[0].rsplit("::", 1)[-1]), fn.loc(h)))
        ctx.ob(rule, fn, "loops-visit-every-element", not bad,
               "no early exit and no element-dropping adaptor in its loops (%s)" % reason if not bad else "%s — %s" % (bad[0][0], reason),
               bad[0][1] if bad else "")
    ctx.floor(rule, "data-carrying loops examined", n, 12 if only is None else 1)
    return n
