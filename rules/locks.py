"""Lock table L, guards, held regions and the lock-order graph (A4 + A9)."""
from . import analysis as A

STD_ACQUIRE = {
    "lock": "lock", "read": "read", "write": "write",
}
OPAQUE = {
    "get_version_history_lock": "lsm.version_history",
    "get_flush_lock": "lsm.flush_lock",
}
J_FIELD = "writer"   # Journal.writer : Mutex<Writer>  == the journal lock J


def last_field(t):
    for alt in A.alternatives(t):
        x = alt
        while x.k in ("downcast", "index"):
            x = x.a[0] if x.k == "downcast" else x.a
        if x.k == "field":
            return x.a[1]
        if x.k == "call" and x.a[1]:
            # Arc::new(x) / clone wrappers: look at first arg
            r = last_field(x.a[1][0])
            if r:
                return r
    return None


def lock_class_of_call(ctx, fn, b, wrappers=None):
    """(class, mode) if the call in block b acquires a lock, else None"""
    t = fn.term(b)
    n = A.cname(t)
    if not n:
        return None
    base = n.split("::<")[0]
    leaf = n.rsplit("::", 1)[-1]
    if n.startswith("std::sync::Mutex::<") and leaf == "lock" or n.startswith("std::sync::RwLock::<") and leaf in ("read", "write"):
        recv = ctx.og(fn).of_operand(t["args"][0])
        f = last_field(recv)
        full = t.get("full") or ""
        if f == J_FIELD or ("Mutex::<journal::writer::Writer>" in full):
            return ("J", "lock")
        if f is None:
            # classify by protected type
            inner = full.split("::<", 1)[1] if "::<" in full else "?"
            f = "type:" + inner.rsplit(">::", 1)[0][:60]
        return (f, leaf)
    for k, v in OPAQUE.items():
        if leaf == k and "AbstractTree" in n:
            return (v, "lock")
    if wrappers and n in wrappers:
        return wrappers[n]
    return None


def find_wrappers(ctx):
    """local fns that return a guard they acquire: {fn id: (class, mode)}"""
    out = {}
    for fid, fn in ctx.F.fns.items():
        rty = fn.local_ty(0)
        if "MutexGuard<" in rty or "RwLockReadGuard<" in rty or "RwLockWriteGuard<" in rty:
            for b, t in fn.calls():
                c = lock_class_of_call(ctx, fn, b)
                if c:
                    out[fid] = c
    return out


class LockModel:
    def __init__(self, ctx):
        self.ctx = ctx
        self.wrappers = find_wrappers(ctx)
        self._guards = {}
        self._acq = {}

    def guards(self, fn):
        """all guards alive in fn: acquired here or received as by-value parameter"""
        if fn.id in self._guards:
            return self._guards[fn.id]
        gs = []
        if fn.id not in self.wrappers:
            for b, t in fn.calls():
                c = lock_class_of_call(self.ctx, fn, b, self.wrappers)
                if c:
                    gs.append(A.Guard(c[0], fn, b, A.guard_aliases(fn, t["dest"]["l"]), c[1]))
        for l in range(1, fn.argc + 1):
            ty = fn.local_ty(l)
            if ty.startswith("&"):
                continue
            cls = None
            if "MutexGuard<" in ty and "journal::writer::Writer" in ty:
                cls = ("J", "lock")
            elif "RwLockWriteGuard<" in ty and "keyspace::Keyspace" in ty:
                cls = ("keyspaces", "write")
            elif "RwLockReadGuard<" in ty and "keyspace::Keyspace" in ty:
                cls = ("keyspaces", "read")
            elif "MutexGuard<" in ty or "RwLockWriteGuard<" in ty or "RwLockReadGuard<" in ty:
                cls = ("param:" + ty[:50], "lock")
            if cls:
                gs.append(A.Guard(cls[0], fn, None, A.guard_aliases(fn, l), cls[1], from_param=True))
        self._guards[fn.id] = gs
        return gs

    def acquires_transitive(self, fid, _stack=None):
        """{class: witness chain} of lock classes acquired by fid or anything it (transitively) calls"""
        if fid in self._acq:
            return self._acq[fid]
        _stack = _stack or set()
        if fid in _stack:
            return {}
        _stack = _stack | {fid}
        fn = self.ctx.F.fns.get(fid)
        out = {}
        if fn is None:
            return out
        if fid in self.wrappers:
            out[self.wrappers[fid][0]] = [fid]
        for b, t in fn.calls():
            c = lock_class_of_call(self.ctx, fn, b, self.wrappers)
            if c and c[0] not in out:
                out[c[0]] = ["%s@%s" % (fid, fn.loc(b))]
        for callee in sorted(self.ctx.cg.callees(fid)):
            if callee in self.ctx.F.fns and callee not in self.wrappers:
                for k, w in self.acquires_transitive(callee, _stack).items():
                    if k not in out:
                        out[k] = [fid] + w
        self._acq[fid] = out
        return out

    def order_edges(self):
        """{(held class, acquired class): [witness]} over the whole crate"""
        edges = {}
        for fid, fn in self.ctx.F.fns.items():
            for g in self.guards(fn):
                held, kills = A.held_blocks(fn, g)
                for b in held:
                    t = fn.term(b)
                    if t["k"] != "call" or b == g.site:
                        continue
                    # releasing call (mem::drop / move into callee): the callee runs with the guard, handled by param guards
                    c = lock_class_of_call(self.ctx, fn, b, self.wrappers)
                    if c:
                        edges.setdefault((g.cls, c[0]), []).append((fid, "%s: `%s` acquired at %s while `%s` (acquired at %s) may be held" % (
                            fid, c[0], fn.loc(b), g.cls, fn.loc(g.site) if g.site is not None else "entry (parameter)")))
                        continue
                    if b in kills and kills[b].startswith("moved-into:"):
                        continue
                    names = set()
                    n = A.cname(t)
                    if n in self.ctx.F.fns:
                        names.add(n)
                    if (t.get("callee") or "") in ("std::ops::FnOnce::call_once", "std::ops::FnMut::call_mut", "std::ops::Fn::call") and not t.get("res"):
                        # call through a generic closure parameter: any closure passed to this fn by a caller
                        for (caller, cb) in self.ctx.cg.callers(fid):
                            cf = self.ctx.F.fns.get(caller)
                            if cf is None:
                                continue
                            for a in cf.blocks[cb]["t"]["args"]:
                                cl = A.closure_of_operand(cf, a)
                                if cl and cl in self.ctx.F.fns:
                                    names.add(cl)
                    for a in t["args"]:
                        cl = A.closure_of_operand(fn, a)
                        if cl and cl in self.ctx.F.fns:
                            names.add(cl)
                    for nm in names:
                        for k, w in self.acquires_transitive(nm).items():
                            edges.setdefault((g.cls, k), []).append((fid, "%s: call at %s while `%s` may be held reaches acquisition of `%s` via %s" % (
                                fid, fn.loc(b), g.cls, k, " -> ".join(w))))
        return edges


def find_cycles(edges):
    """elementary cycles (as class lists) in the lock-order graph, self loops included"""
    graph = {}
    for (a, b) in edges:
        graph.setdefault(a, set()).add(b)
        graph.setdefault(b, set())
    cycles = []
    seen_sets = set()

    def dfs(start, v, path, visited):
        for w in sorted(graph[v]):
            if w == start:
                key = frozenset(zip(path, path[1:] + [start]))
                if key not in seen_sets:
                    seen_sets.add(key)
                    cycles.append(path + [start])
            elif w not in visited and w > start:
                dfs(start, w, path + [w], visited | {w})

    for s in sorted(graph):
        dfs(s, s, [s], {s})
    return cycles
