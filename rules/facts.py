"""Fact base loader + pretty printer for the MIR facts written by driver/ (E1)."""
import json, sys, os


class Fn:
    __slots__ = ("d", "id", "blocks", "locals", "kind", "file", "line", "argc", "facts",
                 "_calls", "_dom", "_pdom", "_succ", "_pred", "_cache")

    def __init__(self, d, facts):
        self.d = d
        self.id = d["id"]
        self.blocks = d["blocks"]
        self.locals = d["locals"]
        self.kind = d["kind"]
        self.file = d["file"]
        self.line = d["line"]
        self.argc = d["argc"]
        self.facts = facts
        self._calls = None
        self._dom = None
        self._pdom = None
        self._succ = None
        self._pred = None
        self._cache = {}

    # ------------------------------------------------------------------ CFG
    def term(self, b):
        return self.blocks[b]["t"]

    def is_cleanup(self, b):
        return self.blocks[b]["cleanup"]

    def succs(self, b):
        """normal (non-unwind) successors"""
        if self._succ is None:
            self._succ = [self._succ_of(i) for i in range(len(self.blocks))]
        return self._succ[b]

    def _succ_of(self, b):
        t = self.blocks[b]["t"]
        k = t["k"]
        if k == "goto":
            return [t["t"]]
        if k == "switch":
            out = []
            for _, tg in t["vs"]:
                if tg not in out:
                    out.append(tg)
            if t["else"] not in out:
                out.append(t["else"])
            return out
        if k in ("drop", "assert"):
            return [t["t"]]
        if k == "call":
            return [t["t"]] if t["t"] is not None else []
        if k == "other":
            return list(t.get("succ", []))
        return []

    def preds(self, b):
        if self._pred is None:
            self._pred = [[] for _ in self.blocks]
            for i in range(len(self.blocks)):
                for s in self.succs(i):
                    self._pred[s].append(i)
        return self._pred[b]

    def normal_blocks(self):
        return [i for i, b in enumerate(self.blocks) if not b["cleanup"]]

    def return_blocks(self):
        return [i for i, b in enumerate(self.blocks) if b["t"]["k"] == "return"]

    def calls(self):
        """list of (block index, terminator dict) for every Call, cleanup blocks excluded"""
        if self._calls is None:
            self._calls = [(i, b["t"]) for i, b in enumerate(self.blocks)
                           if b["t"]["k"] == "call" and not b["cleanup"]]
        return self._calls

    def local_name(self, l):
        n = self.locals[l]["n"]
        return n if n else "_%d" % l

    def local_ty(self, l):
        return self.locals[l]["ty"]

    def loc(self, b=None):
        if b is None:
            return "%s:%d" % (self.file, self.line)
        return "%s:%d" % (self.file, self.blocks[b]["t"]["ln"])

    # ------------------------------------------------------------ printing
    def fmt_place(self, p):
        s = self.local_name(p["l"])
        if s != "_%d" % p["l"]:
            s = "%s(_%d)" % (s, p["l"])
        for e in p["p"]:
            if e == "*":
                s = "(*%s)" % s
            elif isinstance(e, dict) and "f" in e:
                s = "%s.%s" % (s, e["n"])
            elif isinstance(e, dict) and "dc" in e:
                s = "(%s as %s)" % (s, e["n"])
            elif isinstance(e, dict) and "idx" in e:
                s = "%s[_%d]" % (s, e["idx"])
            else:
                s = "%s{%s}" % (s, e)
        return s

    def fmt_op(self, o):
        if "copy" in o:
            return self.fmt_place(o["copy"])
        if "move" in o:
            return "move " + self.fmt_place(o["move"])
        if "const" in o:
            c = o["const"]
            if "fn" in c:
                return "fn:" + c.get("fn_res", c["fn"])
            if "closure" in c:
                return "closure:" + c["closure"]
            if "variant" in c:
                return "const %s::%s" % (c["ty"], c["variant"])
            if "val" in c:
                return "const %s %s" % (c["val"], c["ty"])
            if "str" in c:
                return "const %r" % c["str"]
            if "fval" in c:
                return "const %s %s" % (c["fval"], c["ty"])
            if "def" in c:
                return "const<%s>%s" % (c["def"], c.get("ref_bytes", c.get("bytes", "")))
            if "bytes" in c or "ref_bytes" in c:
                return "const bytes%s" % (c.get("bytes", c.get("ref_bytes")))
            return "const(%s)" % c["ty"]
        return str(o)

    def fmt_rv(self, r):
        k = r["k"]
        if k == "use":
            return self.fmt_op(r["a"])
        if k == "ref":
            return ("&mut " if r["mut"] else "&") + self.fmt_place(r["pl"])
        if k == "rawptr":
            return "&raw " + self.fmt_place(r["pl"])
        if k == "cast":
            return "%s as %s (%s)" % (self.fmt_op(r["a"]), r["ty"], r["ck"][:30])
        if k == "bin":
            return "%s(%s, %s)" % (r["op"], self.fmt_op(r["a"]), self.fmt_op(r["b"]))
        if k == "un":
            return "%s(%s)" % (r["op"], self.fmt_op(r["a"]))
        if k == "discr":
            return "discriminant(%s)" % self.fmt_place(r["pl"])
        if k == "agg":
            ops = ", ".join(self.fmt_op(x) for x in r["ops"])
            if "adt" in r:
                return "%s::%s{%s}(%s)" % (r["adt"], r["variant"], ",".join(r["fields"]), ops)
            if "closure" in r:
                return "closure %s[%s](%s)" % (r["closure"], ",".join(r.get("fields", [])), ops)
            return "(%s)" % ops
        if k == "setdiscr":
            return "setdiscr %d" % r["v"]
        return "%s %s" % (k, r.get("dbg", ""))

    def fmt_term(self, t):
        k = t["k"]
        if k == "goto":
            return "goto bb%d" % t["t"]
        if k == "switch":
            return "switch %s [%s, else bb%d]" % (
                self.fmt_op(t["d"]), ", ".join("%d->bb%d" % (v, tg) for v, tg in t["vs"]), t["else"])
        if k == "drop":
            return "drop(%s : %s) -> bb%d" % (self.fmt_place(t["pl"]), t["ty"][:60], t["t"])
        if k == "call":
            name = t.get("res") or t.get("callee") or ("<indirect %s>" % self.fmt_op(t["fop"]))
            extra = ""
            if t.get("res") and t.get("callee") and t["res"] != t["callee"]:
                extra = "  {via %s}" % t["callee"]
            return "%s = %s(%s) -> %s%s   [%s]" % (
                self.fmt_place(t["dest"]), name, ", ".join(self.fmt_op(a) for a in t["args"]),
                "bb%d" % t["t"] if t["t"] is not None else "!", extra, t.get("full", ""))
        if k == "assert":
            return "assert(%s == %s) -> bb%d" % (self.fmt_op(t["c"]), t["exp"], t["t"])
        return k + " " + t.get("dbg", "")

    def dump(self, out=sys.stdout, cleanup=False):
        out.write("fn %s  [%s:%d] kind=%s argc=%d\n" % (self.id, self.file, self.line, self.kind, self.argc))
        for i, l in enumerate(self.locals):
            out.write("   let _%d: %s%s\n" % (i, l["ty"], ("  // " + l["n"]) if l["n"] else ""))
        for i, b in enumerate(self.blocks):
            if b["cleanup"] and not cleanup:
                continue
            out.write(" bb%d%s:\n" % (i, " (cleanup)" if b["cleanup"] else ""))
            for st in b["s"]:
                out.write("     %s = %s   @%d\n" % (self.fmt_place(st["p"]), self.fmt_rv(st["rv"]), st["ln"]))
            out.write("     >> %s   @%d\n" % (self.fmt_term(b["t"]), b["t"]["ln"]))


class Facts:
    def __init__(self, path):
        with open(path) as f:
            d = json.load(f)
        self.path = path
        self.crate = d["crate"]
        self.features = d["features"]
        self.fns = {}
        for fd in d["fns"]:
            fn = Fn(fd, self)
            self.fns[fn.id] = fn
        self.adts = {a["id"]: a for a in d["adts"]}
        self.impls = d["impls"]
        self.consts = {c["id"]: c for c in d["consts"]}
        self._cg = None

    def fn(self, fid):
        return self.fns.get(fid)

    def find(self, substr):
        return [f for k, f in self.fns.items() if substr in k]

    def closures_of(self, fid):
        return [f for f in self.fns.values() if f.kind == "closure" and f.d.get("root") == fid]


if __name__ == "__main__":
    # usage: facts.py <facts.json> <substr> [--cleanup]
    F = Facts(sys.argv[1])
    if len(sys.argv) < 3:
        for k in sorted(F.fns):
            print(k)
    else:
        for f in F.find(sys.argv[2]):
            f.dump(cleanup="--cleanup" in sys.argv)
            print()
