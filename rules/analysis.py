"""Generic analyses over the MIR fact base (E2): CFG reachability / dominance, pruning of
configuration-infeasible edges, call graph, result (error-edge) flow, held-guard dataflow,
origin terms.  Nothing in here is property-specific."""
from collections import deque

# --------------------------------------------------------------------------- names
def cname(t):
    """resolved callee name of a call terminator (falls back to the unresolved path)"""
    return t.get("res") or t.get("callee") or ""


def is_call_to(t, names):
    """names: iterable of exact def paths or suffix patterns starting with '*'"""
    if t["k"] != "call":
        return False
    r, c = t.get("res") or "", t.get("callee") or ""
    for n in names:
        if n.startswith("*"):
            if r.endswith(n[1:]) or c.endswith(n[1:]):
                return True
        elif r == n or c == n:
            return True
    return False


# --------------------------------------------------------------------------- CFG
def reach(fn, starts, avoid=(), pruned=(), stop=()):
    """blocks reachable from the *entry* of the blocks in `starts` along normal edges,
    never entering a block in `avoid`, never following an edge in `pruned` {(a,b)},
    not continuing past blocks in `stop` (they are included)."""
    avoid = set(avoid)
    seen = set()
    dq = deque(s for s in starts if s not in avoid)
    while dq:
        b = dq.popleft()
        if b in seen:
            continue
        seen.add(b)
        if b in stop:
            continue
        for s in fn.succs(b):
            if (b, s) in pruned or s in avoid or s in seen:
                continue
            dq.append(s)
    return seen


def reach_after(fn, b, avoid=(), pruned=(), stop=()):
    """blocks reachable strictly after the terminator of b"""
    return reach(fn, [s for s in fn.succs(b) if (b, s) not in pruned], avoid, pruned, stop)


def live_blocks(fn, pruned=()):
    return reach(fn, [0], pruned=pruned)


def dominates(fn, a, b, pruned=()):
    """every path entry -> b passes through a (a == b counts)"""
    if a == b:
        return True
    return b not in reach(fn, [0], avoid=[a], pruned=pruned)


def all_paths_pass(fn, src_after, through, dst, pruned=()):
    """every path from after block `src_after` to any block in `dst` passes a block in `through`.
    Returns (ok, witness_block)"""
    r = reach_after(fn, src_after, avoid=through, pruned=pruned)
    for d in dst:
        if d in r:
            return False, d
    return True, None


def find_path(fn, starts, goal, avoid=(), pruned=()):
    """one shortest block path (list) from any start to any goal avoiding `avoid`; None if none"""
    avoid = set(avoid)
    goal = set(goal)
    prev = {}
    dq = deque()
    for s in starts:
        if s not in avoid and s not in prev:
            prev[s] = None
            dq.append(s)
    while dq:
        b = dq.popleft()
        if b in goal:
            out = []
            while b is not None:
                out.append(b)
                b = prev[b]
            return out[::-1]
        for s in fn.succs(b):
            if (b, s) in pruned or s in avoid or s in prev:
                continue
            prev[s] = b
            dq.append(s)
    return None


def in_cycle(fn, b, pruned=()):
    return b in reach_after(fn, b, pruned=pruned)


def sccs(fn):
    """Tarjan SCCs over normal edges; returns list of sets"""
    idx = {}
    low = {}
    st = []
    on = set()
    out = []
    counter = [0]
    import sys
    sys.setrecursionlimit(10000)

    def strong(v):
        idx[v] = low[v] = counter[0]
        counter[0] += 1
        st.append(v)
        on.add(v)
        for w in fn.succs(v):
            if w not in idx:
                strong(w)
                low[v] = min(low[v], low[w])
            elif w in on:
                low[v] = min(low[v], idx[w])
        if low[v] == idx[v]:
            comp = set()
            while True:
                w = st.pop()
                on.discard(w)
                comp.add(w)
                if w == v:
                    break
            out.append(comp)

    for v in fn.normal_blocks():
        if v not in idx:
            strong(v)
    return out


# ------------------------------------------------------------------ local definitions
def defs_of(fn, local):
    """all definitions of a whole local: list of ('stmt', b, i, rvalue) / ('call', b, term)"""
    key = ("defs", local)
    c = fn._cache.get(key)
    if c is not None:
        return c
    if "alldefs" not in fn._cache:
        table = {}
        for b, blk in enumerate(fn.blocks):
            if blk["cleanup"]:
                continue
            for i, st in enumerate(blk["s"]):
                p = st["p"]
                if not p["p"]:
                    table.setdefault(p["l"], []).append(("stmt", b, i, st["rv"]))
                else:
                    table.setdefault(("proj", p["l"]), []).append(("stmt", b, i, st))
            t = blk["t"]
            if t["k"] == "call" and not t["dest"]["p"]:
                table.setdefault(t["dest"]["l"], []).append(("call", b, t))
        fn._cache["alldefs"] = table
    out = fn._cache["alldefs"].get(local, [])
    fn._cache[key] = out
    return out


def op_place(o):
    if "copy" in o:
        return o["copy"]
    if "move" in o:
        return o["move"]
    return None


def op_local(o):
    """the local if the operand is a bare local (no projections)"""
    p = op_place(o)
    if p is not None and not p["p"]:
        return p["l"]
    return None


def op_const(o):
    return o.get("const")


def uses_of(fn, local):
    """(kind, b, i/None, obj) for every use of `local` as an operand base or place base (non-cleanup)"""
    key = ("uses", local)
    c = fn._cache.get(key)
    if c is not None:
        return c
    out = []

    def rv_locals(rv):
        k = rv["k"]
        res = []
        if k in ("use", "cast", "un", "repeat"):
            p = op_place(rv["a"])
            if p:
                res.append(p["l"])
        elif k in ("ref", "rawptr", "discr"):
            res.append(rv["pl"]["l"])
        elif k == "bin":
            for x in (rv["a"], rv["b"]):
                p = op_place(x)
                if p:
                    res.append(p["l"])
        elif k == "agg":
            for x in rv["ops"]:
                p = op_place(x)
                if p:
                    res.append(p["l"])
        return res

    for b, blk in enumerate(fn.blocks):
        if blk["cleanup"]:
            continue
        for i, st in enumerate(blk["s"]):
            if local in rv_locals(st["rv"]):
                out.append(("stmt", b, i, st))
        t = blk["t"]
        if t["k"] == "call":
            for a in t["args"]:
                p = op_place(a)
                if p and p["l"] == local:
                    out.append(("call", b, None, t))
                    break
        elif t["k"] == "switch":
            p = op_place(t["d"])
            if p and p["l"] == local:
                out.append(("switch", b, None, t))
        elif t["k"] == "drop":
            if t["pl"]["l"] == local:
                out.append(("drop", b, None, t))
    fn._cache[key] = out
    return out


# --------------------------------------------------------------------- origin terms
TRANSPARENT_SUFFIX = (
    "::deref", "::deref_mut", "::clone", "::as_ref", "::as_mut", "::borrow", "::borrow_mut",
    "::into", "::from", "::as_slice", "::as_bytes", "::as_str", "::as_path", "::to_owned", "::cloned", "::copied",
    "::unwrap", "::expect", "::branch", "::from_residual", "::as_deref", "::into_iter", "::iter",
    "::to_path_buf", "::unwrap_or_default",
)


ALLOWED_TRAITS = ("std::ops::Deref", "std::ops::DerefMut", "std::clone::Clone", "std::convert::AsRef", "std::convert::AsMut",
                  "std::borrow::Borrow", "std::borrow::BorrowMut", "std::convert::Into", "std::convert::From", "std::ops::Try",
                  "std::ops::FromResidual", "std::iter::IntoIterator", "std::borrow::ToOwned", "std::ops::Residual")


def is_transparent(name):
    """value-preserving wrappers: the result 'is' (a view of / a copy of / the payload of) the first argument"""
    if not name:
        return False
    if not any(name.endswith(s) for s in TRANSPARENT_SUFFIX):
        return False
    if name.startswith("<"):
        # <Self as Trait>::method  — only the std conversion / deref / clone traits
        try:
            trait = name[1:name.rindex(">::")].rsplit(" as ", 1)[1]
        except (ValueError, IndexError):
            return False
        trait = trait.split("<")[0]
        return trait in ALLOWED_TRAITS
    if name.startswith(("std::", "core::", "alloc::")):
        return True
    if " for " in name and "impl " in name:
        # inherent-looking path of a trait impl in another crate: lsm_tree::slice::<impl std::ops::Deref for Slice>::deref
        tr = name[name.index("impl ") + 5:name.index(" for ")].split("<")[0]
        return tr in ALLOWED_TRAITS
    return False


class Term:
    """origin term: kind in {param,const,field,call,agg,bin,un,discr,phi,unknown,closure,fnitem}"""
    __slots__ = ("k", "a", "site")

    def __init__(self, k, a, site=None):
        self.k = k
        self.a = a
        self.site = site

    def __repr__(self):
        return tstr(self)


def tstr(t, depth=0):
    if depth > 12:
        return "…"
    k = t.k
    if k == "param":
        return "P%d" % t.a[0] + ("(%s)" % t.a[1] if t.a[1] else "")
    if k == "const":
        return "const(%s)" % (t.a,)
    if k == "field":
        return "%s.%s" % (tstr(t.a[0], depth + 1), t.a[1])
    if k == "call":
        return "%s(%s)" % (short(t.a[0]), ", ".join(tstr(x, depth + 1) for x in t.a[1]))
    if k == "agg":
        return "%s{%s}" % (short(t.a[0]), ", ".join("%s: %s" % (n, tstr(x, depth + 1)) for n, x in t.a[1]))
    if k == "bin":
        return "%s(%s, %s)" % (t.a[0], tstr(t.a[1], depth + 1), tstr(t.a[2], depth + 1))
    if k == "un":
        return "%s(%s)" % (t.a[0], tstr(t.a[1], depth + 1))
    if k == "discr":
        return "discr(%s)" % tstr(t.a, depth + 1)
    if k == "phi":
        return "phi[%s]" % " | ".join(tstr(x, depth + 1) for x in t.a)
    if k == "closure":
        return "closure(%s)" % short(t.a[0])
    if k == "fnitem":
        return "fn(%s)" % short(t.a)
    if k == "downcast":
        return "(%s as %s)" % (tstr(t.a[0], depth + 1), t.a[1])
    if k == "index":
        return "%s[..]" % tstr(t.a, depth + 1)
    return "?%s" % (t.a,)


def short(name):
    return name


def const_value(c):
    """hashable python value of a const fact"""
    if "variant" in c:
        return ("variant", c["ty"], c["variant"])
    if "val" in c:
        return ("int", c["val"]) if not isinstance(c["val"], bool) else ("bool", c["val"])
    if "str" in c:
        return ("str", c["str"])
    if "fval" in c:
        return ("float", c["fval"])
    if "bytes" in c:
        return ("bytes", tuple(c["bytes"]))
    if "ref_bytes" in c:
        return ("bytes", tuple(c["ref_bytes"]))
    if "def" in c:
        return ("def", c["def"])
    if "zst" in c:
        return ("zst", c["ty"])
    return ("ty", c["ty"])


class Origins:
    """flow-insensitive backward def-use origins for one function"""

    def __init__(self, fn, facts=None, max_depth=40):
        self.fn = fn
        self.facts = facts or fn.facts
        self.max_depth = max_depth
        self.memo = {}

    def of_local(self, l, depth=0, stack=()):
        if l in self.memo:
            return self.memo[l]
        if depth > self.max_depth or l in stack:
            return Term("unknown", "cycle:_%d" % l)
        fn = self.fn
        ds = defs_of(fn, l)
        terms = []
        if 1 <= l <= fn.argc:
            terms.append(Term("param", (l, fn.locals[l]["n"])))
        # closure environment fields / partial writes are ignored for whole-local origin
        for d in ds:
            if d[0] == "stmt":
                terms.append(self.of_rvalue(d[3], depth + 1, stack + (l,), site=(fn.id, d[1], d[2])))
            else:
                terms.append(self.of_call(d[2], d[1], depth + 1, stack + (l,)))
        # a local that is only written through projections (struct built field by field / &mut out-param)
        if not terms:
            pd = fn._cache.get("alldefs", {}).get(("proj", l), [])
            if pd:
                fields = []
                for d in pd:
                    st = d[3]
                    pr = st["p"]["p"]
                    if len(pr) == 1 and isinstance(pr[0], dict) and "f" in pr[0]:
                        fields.append((pr[0]["n"], self.of_rvalue(st["rv"], depth + 1, stack + (l,), site=(fn.id, d[1], d[2]))))
                if fields:
                    terms.append(Term("agg", ("(fieldwise)", tuple(fields))))
        if not terms:
            t = Term("unknown", "undef:_%d" % l)
        elif len(terms) == 1:
            t = terms[0]
        else:
            # dedupe by string
            seen = {}
            for x in terms:
                seen.setdefault(tstr(x), x)
            t = list(seen.values())[0] if len(seen) == 1 else Term("phi", tuple(seen.values()))
        if depth == 0 or not stack:
            self.memo[l] = t
        return t

    def of_place(self, p, depth=0, stack=()):
        t = self.of_local(p["l"], depth, stack)
        for e in p["p"]:
            if e == "*":
                continue
            if isinstance(e, dict) and "f" in e:
                t = project(t, e["n"])
            elif isinstance(e, dict) and "dc" in e:
                t = Term("downcast", (t, e["n"]))
            elif isinstance(e, dict) and ("idx" in e or "cidx" in e):
                t = Term("index", t)
        return t

    def of_operand(self, o, depth=0, stack=()):
        p = op_place(o)
        if p is not None:
            return self.of_place(p, depth, stack)
        c = o.get("const")
        if c is not None:
            if "fn" in c:
                return Term("fnitem", c.get("fn_res") or c["fn"])
            if "closure" in c:
                return Term("closure", (c["closure"], ()))
            return Term("const", const_value(c))
        return Term("unknown", "op")

    def of_rvalue(self, rv, depth=0, stack=(), site=None):
        k = rv["k"]
        if k == "use":
            return self.of_operand(rv["a"], depth, stack)
        if k in ("ref", "rawptr"):
            return self.of_place(rv["pl"], depth, stack)
        if k == "cast":
            return self.of_operand(rv["a"], depth, stack)
        if k == "bin":
            return Term("bin", (rv["op"], self.of_operand(rv["a"], depth, stack), self.of_operand(rv["b"], depth, stack)), site)
        if k == "un":
            return Term("un", (rv["op"], self.of_operand(rv["a"], depth, stack)), site)
        if k == "discr":
            return Term("discr", self.of_place(rv["pl"], depth, stack))
        if k == "agg":
            ops = [self.of_operand(x, depth, stack) for x in rv["ops"]]
            if "adt" in rv:
                names = rv.get("fields", [])
                if len(names) != len(ops):
                    names = [str(i) for i in range(len(ops))]
                return Term("agg", ("%s::%s" % (rv["adt"], rv["variant"]), tuple(zip(names, ops))), site)
            if "closure" in rv:
                names = rv.get("fields", [])
                if len(names) != len(ops):
                    names = [str(i) for i in range(len(ops))]
                return Term("closure", (rv["closure"], tuple(zip(names, ops))), site)
            return Term("agg", ("(tuple)", tuple((str(i), x) for i, x in enumerate(ops))), site)
        if k == "repeat":
            return self.of_operand(rv["a"], depth, stack)
        return Term("unknown", k)

    def of_call(self, t, b, depth=0, stack=()):
        name = cname(t)
        if name is None:
            name = ""
        args = [self.of_operand(a, depth, stack) for a in t["args"]]
        if is_transparent(name) and args:
            return args[0]
        if not name:
            # indirect call through a fn pointer / closure value
            return Term("call", ("<indirect>", tuple(args)), (self.fn.id, b))
        return Term("call", (name, tuple(args)), (self.fn.id, b))

    def _inline_thin_from(self, callee, args, site):
        rt = self.of_local(0)
        if rt.k != "call" or any(x.k in ("unknown", "phi") for x in walk(rt)):
            return None
        return _subst_params(rt, args, site)

    def _inline_thin(self, name, args, b, depth):
        """a local 'thin wrapper' (straight-line getter / forwarding helper): its return term with parameters substituted,
        the outermost call keeping the CALLER's site (so that two calls of the helper stay two different values)"""
        callee = self.facts.fns.get(name)
        if callee is None or callee is self.fn or depth > 20 or getattr(self, "_inlining", 0) >= 2:
            return None
        if not thin_wrapper(callee):
            return None
        sub = Origins(callee, self.facts)
        sub._inlining = getattr(self, "_inlining", 0) + 1
        rt = sub.of_local(0)
        if rt.k != "call" or any(x.k in ("unknown", "phi") for x in walk(rt)):
            return None
        site = (self.fn.id, b)

        def subst(t, top=False):
            if t.k == "param":
                i = t.a[0] - 1
                return args[i] if 0 <= i < len(args) else t
            if t.k == "field":
                return project(subst(t.a[0]), t.a[1])
            if t.k == "downcast":
                return Term("downcast", (subst(t.a[0]), t.a[1]))
            if t.k == "call":
                return Term("call", (t.a[0], tuple(subst(x) for x in t.a[1])), site if top else t.site)
            if t.k == "bin":
                return Term("bin", (t.a[0], subst(t.a[1]), subst(t.a[2])), t.site)
            if t.k == "un":
                return Term("un", (t.a[0], subst(t.a[1])), t.site)
            if t.k in ("agg", "closure"):
                return Term(t.k, (t.a[0], tuple((n, subst(x)) for n, x in t.a[1])), t.site)
            if t.k == "discr":
                return Term("discr", subst(t.a))
            if t.k == "index":
                return Term("index", subst(t.a))
            return t
        return subst(rt, True)


def project(t, name):
    """field projection on a term; looks through aggregates"""
    if t.k == "agg":
        for n, x in t.a[1]:
            if n == name:
                return x
    if t.k == "closure":
        for n, x in t.a[1]:
            if n == name:
                return x
    if t.k == "phi":
        parts = [project(x, name) for x in t.a]
        seen = {}
        for x in parts:
            seen.setdefault(tstr(x), x)
        return list(seen.values())[0] if len(seen) == 1 else Term("phi", tuple(seen.values()))
    if t.k == "downcast":
        # (X as Variant).0 with X an aggregate of that variant
        inner = t.a[0]
        if inner.k == "agg" and inner.a[0].endswith("::" + t.a[1]):
            for n, x in inner.a[1]:
                if n == name:
                    return x
    return Term("field", (t, name))


def walk(t):
    """all subterms"""
    yield t
    k = t.k
    if k == "field":
        yield from walk(t.a[0])
    elif k == "call":
        for x in t.a[1]:
            yield from walk(x)
    elif k in ("agg", "closure"):
        for _, x in t.a[1]:
            yield from walk(x)
    elif k == "bin":
        yield from walk(t.a[1])
        yield from walk(t.a[2])
    elif k == "un":
        yield from walk(t.a[1])
    elif k in ("discr", "index"):
        yield from walk(t.a)
    elif k == "phi":
        for x in t.a:
            yield from walk(x)
    elif k == "downcast":
        yield from walk(t.a[0])


def strip(t):
    """look through downcasts / tuple-index noise: the 'value' that flows"""
    while t.k in ("downcast",):
        t = t.a[0]
    return t


def access_path(t):
    """('P1','supervisor','seqno') for a chain of field projections off a param; None otherwise.
    Downcasts (Some(x) payloads) are looked through."""
    names = []
    while True:
        if t.k == "field":
            names.append(t.a[1])
            t = t.a[0]
        elif t.k == "downcast":
            t = t.a[0]
        elif t.k == "index":
            names.append("[]")
            t = t.a
        else:
            break
    if t.k == "param":
        return tuple(["P%d" % t.a[0]] + names[::-1])
    return None


def ends_with_field(t, *names):
    """term is a field chain whose trailing fields are `names` (through downcasts)"""
    names = list(names)
    while names:
        while t.k == "downcast":
            t = t.a[0]
        if t.k != "field" or t.a[1] != names[-1]:
            return False
        names.pop()
        t = t.a[0]
    return True


def alternatives(t):
    """flatten phi"""
    if t.k == "phi":
        out = []
        for x in t.a:
            out.extend(alternatives(x))
        return out
    return [t]


def calls_in(t, name_suffix):
    return [x for x in walk(t) if x.k == "call" and x.a[0].endswith(name_suffix)]


def consts_in(t):
    return [x.a for x in walk(t) if x.k == "const"]


# ------------------------------------------------------------------ edge pruning (A3)
def prune_edges(fn, assume_field=None, assume_discr=None):
    """Configuration-specialised CFG.
    assume_field: {field_name: bool}  — a switch on a bool loaded from a place whose last field is
                  field_name (possibly through `Not`) keeps only the feasible edge.
    assume_discr: {field_name: variant_name} — a switch on discriminant(place ending in field_name)
                  keeps only that variant's edge.
    Returns set of pruned (a,b) edges."""
    assume_field = assume_field or {}
    assume_discr = assume_discr or {}
    pruned = set()
    og = Origins(fn)

    def last_field(t):
        while t.k == "downcast":
            t = t.a[0]
        if t.k == "field":
            return t.a[1]
        return None

    for b, blk in enumerate(fn.blocks):
        t = blk["t"]
        if t["k"] != "switch" or blk["cleanup"]:
            continue
        term = og.of_operand(t["d"])
        neg = False
        while term.k == "un" and term.a[0] == "Not":
            neg = not neg
            term = term.a[1]
        if term.k == "discr":
            lf = last_field(term.a)
            if lf in assume_discr:
                want = assume_discr[lf]
                # variant table lives on the discriminant statement
                vmap = discr_variants(fn, t["d"])
                if vmap:
                    for val, tg in t["vs"]:
                        if vmap.get(val) != want:
                            pruned.add((b, tg))
                    # 'else' edge: feasible only if wanted variant not among explicit values
                    explicit = {vmap.get(v) for v, _ in t["vs"]}
                    if want in explicit and t["else"] not in [tg for v, tg in t["vs"] if vmap.get(v) == want]:
                        pruned.add((b, t["else"]))
            continue
        lf = last_field(term)
        if lf in assume_field and t["dty"] == "bool":
            val = assume_field[lf]
            if neg:
                val = not val
            # switch [0 -> F, else T]
            for v, tg in t["vs"]:
                if (v != 0) != val:
                    pruned.add((b, tg))
            zero_targets = [tg for v, tg in t["vs"] if v == 0]
            if val is False and zero_targets and t["else"] not in zero_targets:
                pruned.add((b, t["else"]))
    return pruned


def discr_variants(fn, discr_operand):
    """{value: variant name} for a switch operand that was produced by a Discriminant rvalue"""
    l = op_local(discr_operand)
    if l is None:
        return None
    for d in defs_of(fn, l):
        if d[0] == "stmt" and d[3]["k"] == "discr":
            return {v: n for v, n in d[3]["variants"]}
    return None


def switch_info(fn, b):
    """for a switch block: (origin term of the discriminant, {edge target: label}) where label is
    variant name / bool / int"""
    t = fn.blocks[b]["t"]
    og = Origins(fn)
    term = og.of_operand(t["d"])
    vmap = discr_variants(fn, t["d"])
    labels = {}
    for v, tg in t["vs"]:
        if vmap:
            labels.setdefault(tg, []).append(vmap.get(v, v))
        elif t["dty"] == "bool":
            labels.setdefault(tg, []).append(bool(v))
        else:
            labels.setdefault(tg, []).append(v)
    if vmap:
        rest = [n for v, n in vmap.items() if v not in [x for x, _ in t["vs"]]]
        labels.setdefault(t["else"], []).extend(rest if rest else [])
    elif t["dty"] == "bool":
        labels.setdefault(t["else"], []).append(True if all(v == 0 for v, _ in t["vs"]) else "else")
    else:
        labels.setdefault(t["else"], []).append("else")
    return term, labels


# -------------------------------------------------------------------- result flow (A6)
class ResultFlow:
    """How the Result produced by the call in block `b` is consumed."""

    def __init__(self):
        self.handlers = []      # (kind, closure def path) for inspect_err / map_err / or_else
        self.handler_blocks = []  # block of each adapter call, parallel to handlers
        self.err_blocks = []    # first blocks executed only when the result is Err
        self.ok_blocks = []     # first blocks executed only when Ok
        self.swallowed = False  # `.ok()`, `let _ =`, dropped without looking
        self.returned = False   # flows into the return place unchanged
        self.panics = False     # unwrap/expect
        self.chain = []         # textual trace
        self.unknown = False


ERR_ADAPTERS = ("::inspect_err", "::map_err", "::or_else")
OK_ADAPTERS = ("::inspect", "::map", "::and_then")


def closure_of_operand(fn, o):
    """def path of the closure passed as operand (through a local built by an Aggregate closure), or a fn item"""
    c = o.get("const")
    if c:
        if "closure" in c:
            return c["closure"]
        if "fn" in c:
            return c.get("fn_res") or c["fn"]
        return None
    l = op_local(o)
    if l is None:
        return None
    for d in defs_of(fn, l):
        if d[0] == "stmt" and d[3]["k"] == "agg" and "closure" in d[3]:
            return d[3]["closure"]
        if d[0] == "stmt" and d[3]["k"] == "use":
            r = closure_of_operand(fn, d[3]["a"])
            if r:
                return r
    return None


def result_flow(fn, b):
    rf = ResultFlow()
    t = fn.blocks[b]["t"]
    cur = t["dest"]["l"]
    if t["dest"]["p"]:
        rf.unknown = True
        return rf
    if cur == 0:
        rf.returned = True
        return rf
    seen = set()
    while True:
        if cur in seen:
            rf.unknown = True
            return rf
        seen.add(cur)
        us = [u for u in uses_of(fn, cur)]
        # ignore storage noise: discriminant reads used only for drop flags come *after* a move
        consumers = []
        for u in us:
            if u[0] == "call":
                consumers.append(u)
            elif u[0] == "stmt":
                consumers.append(u)
            elif u[0] == "switch":
                consumers.append(u)
            elif u[0] == "drop":
                consumers.append(u)
        if not consumers:
            rf.swallowed = True
            rf.chain.append("unused")
            return rf
        # the first consumer in CFG order that moves / inspects the value decides
        moved = None
        for u in consumers:
            if u[0] == "call":
                moved = u
                break
        if moved is not None:
            ct = moved[3]
            name = cname(ct)
            rf.chain.append(name)
            if name.endswith("::branch"):
                # ControlFlow: discriminant 0 = Continue, 1 = Break
                cf = ct["dest"]["l"]
                for u2 in uses_of(fn, cf):
                    if u2[0] == "stmt" and u2[3]["rv"]["k"] == "discr":
                        dl = u2[3]["p"]["l"]
                        for u3 in uses_of(fn, dl):
                            if u3[0] == "switch":
                                for v, tg in u3[3]["vs"]:
                                    if v == 1:
                                        rf.err_blocks.append(tg)
                                    elif v == 0:
                                        rf.ok_blocks.append(tg)
                                if rf.err_blocks:
                                    rf.returned = True  # `?` propagates the error to the caller
                                    return rf
                rf.unknown = True
                return rf
            if any(name.endswith(s) for s in ERR_ADAPTERS):
                cl = closure_of_operand(fn, ct["args"][1]) if len(ct["args"]) > 1 else None
                rf.handlers.append((name.rsplit("::", 1)[1], cl))
                rf.handler_blocks.append(moved[1])
                if ct["dest"]["l"] == 0 and not ct["dest"]["p"]:
                    rf.returned = True
                    return rf
                cur = ct["dest"]["l"]
                continue
            if any(name.endswith(s) for s in OK_ADAPTERS) or is_transparent(name) and not name.endswith(("::unwrap", "::expect", "::ok")):
                if ct["dest"]["l"] == 0 and not ct["dest"]["p"]:
                    rf.returned = True
                    return rf
                cur = ct["dest"]["l"]
                continue
            if name.endswith(("::unwrap", "::expect")):
                rf.panics = True
                return rf
            if name.endswith("Result::<T, E>::ok") or name.endswith("::ok") or name.endswith("::unwrap_or_default") or name.endswith("::unwrap_or") or name.endswith("::is_ok") or name.endswith("::is_err"):
                rf.swallowed = True
                return rf
            if name.endswith("::from_residual"):
                rf.returned = True
                return rf
            rf.unknown = True
            return rf
        # no call consumer: look for discriminant test or move
        progressed = False
        for u in consumers:
            if u[0] == "stmt":
                rv = u[3]["rv"]
                if rv["k"] == "discr" and rv["pl"]["l"] == cur and not rv["pl"]["p"]:
                    dl = u[3]["p"]["l"]
                    for u3 in uses_of(fn, dl):
                        if u3[0] == "switch":
                            vm = {v: n for v, n in rv["variants"]}
                            for v, tg in u3[3]["vs"]:
                                if vm.get(v) == "Err":
                                    rf.err_blocks.append(tg)
                                elif vm.get(v) == "Ok":
                                    rf.ok_blocks.append(tg)
                            explicit = {vm.get(v) for v, _ in u3[3]["vs"]}
                            if "Err" not in explicit and "Ok" in explicit:
                                rf.err_blocks.append(u3[3]["else"])
                            if "Ok" not in explicit and "Err" in explicit:
                                rf.ok_blocks.append(u3[3]["else"])
                            rf.chain.append("match")
                            return rf
                if rv["k"] == "use" and op_local(rv["a"]) == cur:
                    dst = u[3]["p"]
                    if dst["l"] == 0 and not dst["p"]:
                        rf.returned = True
                        return rf
                    if not dst["p"]:
                        cur = dst["l"]
                        progressed = True
                        break
        if progressed:
            continue
        if all(u[0] == "drop" for u in consumers):
            rf.swallowed = True
            rf.chain.append("dropped")
            return rf
        rf.unknown = True
        return rf


# -------------------------------------------------------------------- call graph (A1)
class CallGraph:
    def __init__(self, facts):
        self.facts = facts
        self.out = {}
        self.sites = {}
        for fid, fn in facts.fns.items():
            outs = set()
            for b, t in fn.calls():
                n = cname(t)
                if n:
                    outs.add(n)
                    self.sites.setdefault(n, []).append((fid, b))
                    c = t.get("callee")
                    if c and c != n:
                        self.sites.setdefault(c, []).append((fid, b))
                # closures / fn items passed as arguments are assumed to be invoked
                for a in t["args"]:
                    c = a.get("const")
                    if c and ("fn" in c):
                        outs.add(c.get("fn_res") or c["fn"])
                    if c and ("closure" in c):
                        outs.add(c["closure"])
            for blk in fn.blocks:
                if blk["cleanup"]:
                    continue
                for st in blk["s"]:
                    rv = st["rv"]
                    if rv["k"] == "agg" and "closure" in rv:
                        outs.add(rv["closure"])
                    if rv["k"] in ("use", "cast"):
                        c = rv["a"].get("const")
                        if c and "fn" in c:
                            outs.add(c.get("fn_res") or c["fn"])
            self.out[fid] = outs
        # higher-order local fns: a call through a generic Fn/FnOnce/FnMut parameter may invoke any
        # closure / fn item passed to that fn at one of its call sites
        for fid, fn in facts.fns.items():
            ho = False
            for b, t in fn.calls():
                c = t.get("callee") or ""
                if c in ("std::ops::FnOnce::call_once", "std::ops::FnMut::call_mut", "std::ops::Fn::call") and not t.get("res"):
                    ho = True
            if not ho:
                continue
            for (caller, b) in self.sites.get(fid, []):
                cf = facts.fns.get(caller)
                if cf is None:
                    continue
                for a in cf.blocks[b]["t"]["args"]:
                    cl = closure_of_operand(cf, a)
                    if cl:
                        self.out[fid].add(cl)
        self._reach = {}

    def callees(self, fid):
        return self.out.get(fid, set())

    def reach(self, fid):
        """all (local and external) function names transitively callable from fid"""
        if fid in self._reach:
            return self._reach[fid]
        seen = set()
        dq = deque([fid])
        while dq:
            f = dq.popleft()
            for c in self.out.get(f, ()):
                if c not in seen:
                    seen.add(c)
                    if c in self.out:
                        dq.append(c)
        self._reach[fid] = seen
        return seen

    def reaches(self, fid, targets):
        r = self.reach(fid)
        return any(t in r for t in targets)

    def callers(self, name):
        """list of (caller fn id, block) calling `name` (resolved or declared callee)"""
        return self.sites.get(name, [])

    def call_chain(self, fid, targets, limit=12):
        """one call chain fid -> ... -> target (names)"""
        targets = set(targets)
        prev = {fid: None}
        dq = deque([fid])
        while dq:
            f = dq.popleft()
            for c in sorted(self.out.get(f, ())):
                if c in prev:
                    continue
                prev[c] = f
                if c in targets:
                    out = [c]
                    while prev[out[-1]] is not None:
                        out.append(prev[out[-1]])
                    return out[::-1]
                if c in self.out:
                    dq.append(c)
        return None


def reaches_call(facts, cg, fn, b, targets):
    """does the call in block b (transitively) invoke one of targets, including closures passed to it"""
    t = fn.blocks[b]["t"]
    n = cname(t)
    targets = set(targets)
    if n in targets or (t.get("callee") in targets):
        return True
    if n in cg.out and cg.reaches(n, targets):
        return True
    for a in t["args"]:
        cl = closure_of_operand(fn, a)
        if cl and (cl in targets or (cl in cg.out and cg.reaches(cl, targets))):
            return True
    return False


def blocks_calling(facts, cg, fn, targets, transitive=True):
    """blocks of fn whose call (transitively, if asked) reaches one of targets"""
    out = []
    for b, t in fn.calls():
        if transitive:
            if reaches_call(facts, cg, fn, b, targets):
                out.append(b)
        else:
            if is_call_to(t, targets):
                out.append(b)
    return out


# ------------------------------------------------------------ held-guard dataflow (A4)
PASS_THROUGH = ("::branch", "::expect", "::unwrap", "::map_err", "::from_residual", "::into", "::from",
                "::inspect_err", "::unwrap_or_else")


def guard_aliases(fn, start_local):
    """locals that may hold (a wrapper of) the guard produced into start_local, following moves,
    Try::branch/expect/unwrap/map_err and downcast payload moves (forward, flow-insensitive)."""
    al = {start_local}
    changed = True
    while changed:
        changed = False
        for b, blk in enumerate(fn.blocks):
            if blk["cleanup"]:
                continue
            for st in blk["s"]:
                rv = st["rv"]
                if rv["k"] == "use" and "move" in rv["a"]:
                    src = rv["a"]["move"]["l"]
                    if src in al and not st["p"]["p"] and st["p"]["l"] not in al:
                        al.add(st["p"]["l"])
                        changed = True
            t = blk["t"]
            if t["k"] == "call" and not t["dest"]["p"] and t["dest"]["l"] not in al:
                n = cname(t)
                if any(n.endswith(s) for s in PASS_THROUGH) and t["args"]:
                    a0 = t["args"][0]
                    if "move" in a0 and a0["move"]["l"] in al and not a0["move"]["p"]:
                        al.add(t["dest"]["l"])
                        changed = True
    return al


class Guard:
    def __init__(self, cls, fn, site, aliases, mode=None, from_param=False):
        self.cls = cls
        self.fn = fn
        self.site = site          # block of the acquire call (None for a parameter guard)
        self.aliases = aliases
        self.mode = mode          # 'read' / 'write' / 'lock'
        self.from_param = from_param

    def __repr__(self):
        return "Guard(%s@%s:%s)" % (self.cls, self.fn.id, self.site)


def guard_kills(fn, g):
    """blocks whose terminator releases / transfers guard g: drop(alias), mem::drop(move alias),
    or a move of an alias into a non-pass-through callee / aggregate"""
    kills = {}
    for b, blk in enumerate(fn.blocks):
        if blk["cleanup"]:
            continue
        t = blk["t"]
        if t["k"] == "drop" and t["pl"]["l"] in g.aliases and not t["pl"]["p"]:
            kills[b] = "drop"
        elif t["k"] == "call":
            n = cname(t)
            for a in t["args"]:
                if "move" in a and a["move"]["l"] in g.aliases and not a["move"]["p"]:
                    if any(n.endswith(s) for s in PASS_THROUGH):
                        continue
                    kills[b] = "mem::drop" if n.startswith("std::mem::drop") else "moved-into:" + n
        for i, st in enumerate(blk["s"]):
            rv = st["rv"]
            if rv["k"] == "agg":
                for o in rv["ops"]:
                    if "move" in o and o["move"]["l"] in g.aliases and not o["move"]["p"]:
                        kills[b] = "moved-into-aggregate"
    return kills


def held_blocks(fn, g, pruned=()):
    """MAY analysis: blocks at whose *terminator* guard g may be held.
    (a block that kills the guard counts as held at its terminator: the release happens there)"""
    kills = guard_kills(fn, g)
    if g.site is None:
        starts = [0]
    else:
        starts = [s for s in fn.succs(g.site)]
    seen = set()
    dq = deque(starts)
    while dq:
        b = dq.popleft()
        if b in seen:
            continue
        seen.add(b)
        if b in kills:
            continue
        for s in fn.succs(b):
            if (b, s) not in pruned and s not in seen:
                dq.append(s)
    return seen, kills


def must_held_at(fn, g, target, pruned=()):
    """guard g is held on EVERY path entry -> target (at target's terminator):
    target is reachable only through the acquire site, and no path acquire -> target passes a kill."""
    kills = guard_kills(fn, g)
    if g.site is not None:
        if not dominates(fn, g.site, target, pruned):
            return False, "not dominated by acquire"
        r = reach_after(fn, g.site, avoid=[b for b in kills if b != target], pruned=pruned)
        # target must be reachable without kill, and NOT reachable via a kill block
        via_kill = set()
        for kb in kills:
            if kb == target:
                continue
            if kb in reach_after(fn, g.site, pruned=pruned):
                via_kill |= reach_after(fn, kb, pruned=pruned)
        if target in via_kill:
            return False, "a release (%s) may precede it" % ",".join("bb%d:%s" % (k, v) for k, v in kills.items() if target in reach_after(fn, k, pruned=pruned))
        if target not in r and target != g.site:
            return False, "unreachable from acquire"
        return True, ""
    else:
        via_kill = set()
        for kb in kills:
            if kb == target:
                continue
            via_kill |= reach_after(fn, kb, pruned=pruned)
        if target in via_kill:
            return False, "a release may precede it"
        return True, ""


# ------------------------------------------------------------------ field writes (A8)
def field_assigns(fn, field, owner_suffix=None):
    """assignments whose destination place ends in `.field` (optionally of an ADT whose path ends with owner_suffix):
    list of (block, stmt index, stmt)"""
    out = []
    for b, blk in enumerate(fn.blocks):
        if blk["cleanup"]:
            continue
        for i, st in enumerate(blk["s"]):
            pr = st["p"]["p"]
            if pr and isinstance(pr[-1], dict) and pr[-1].get("n") == field and "f" in pr[-1]:
                if owner_suffix and not pr[-1].get("o", "").endswith(owner_suffix):
                    continue
                out.append((b, i, st))
    return out


def stmt_const(st):
    """const value assigned by a statement, if it is `place = const`"""
    rv = st["rv"]
    if rv["k"] == "use" and "const" in rv["a"]:
        return const_value(rv["a"]["const"])
    return None


def err_region(fn, blocks_with_results):
    """blocks reachable only via the Err edge of the Result-returning calls in `blocks_with_results`"""
    starts = []
    for b in blocks_with_results:
        rf = result_flow(fn, b)
        starts.extend(rf.err_blocks)
    return starts


def switch_after_call(fn, b):
    """the switch block that branches on the bool/enum result of the call in block b (directly), or None"""
    t = fn.blocks[b]["t"]
    if t["k"] != "call" or t["t"] is None:
        return None
    dl = t["dest"]["l"]
    seen = set()
    cur = t["t"]
    # follow straight-line blocks
    while cur is not None and cur not in seen:
        seen.add(cur)
        tt = fn.blocks[cur]["t"]
        if tt["k"] == "switch":
            p = op_place(tt["d"])
            if p is not None:
                # discriminant of / direct use of dest
                if p["l"] == dl:
                    return cur
                for d in defs_of(fn, p["l"]):
                    if d[0] == "stmt":
                        rv = d[3]
                        if rv["k"] == "discr" and rv["pl"]["l"] == dl:
                            return cur
                        if rv["k"] in ("use", "un") and op_place(rv["a"]) and op_place(rv["a"])["l"] == dl:
                            return cur
            return None
        if tt["k"] == "goto":
            cur = tt["t"]
        else:
            return None
    return None


def bool_edges(fn, sw):
    """(false targets, true targets) of a bool switch block"""
    t = fn.blocks[sw]["t"]
    zero = [tg for v, tg in t["vs"] if v == 0]
    other = [x for x in fn.succs(sw) if x not in zero]
    return zero, other


def variants_in(t, enum_suffix):
    """names of variants of the enum (path ending in enum_suffix) that occur in term t, as consts or aggregates"""
    out = set()
    for x in walk(t):
        if x.k == "const" and x.a[0] == "variant" and x.a[1].endswith(enum_suffix):
            out.add(x.a[2])
        elif x.k == "agg" and "::" in x.a[0]:
            enum, var = x.a[0].rsplit("::", 1)
            if enum.endswith(enum_suffix):
                out.add(var)
    return out


def tkey(t, depth=0):
    """like tstr but call terms carry their call site: two terms with equal keys denote the same dynamic value
    (same definition site), not merely the same expression shape"""
    if depth > 200:
        return "…%d" % id(t)   # never equal to anything else: truncated terms must not compare equal
    k = t.k
    if k == "call":
        return "%s@%s(%s)" % (t.a[0], t.site, ",".join(tkey(x, depth + 1) for x in t.a[1]))
    if k == "field":
        return "%s.%s" % (tkey(t.a[0], depth + 1), t.a[1])
    if k == "downcast":
        return "(%s as %s)" % (tkey(t.a[0], depth + 1), t.a[1])
    if k == "phi":
        return "phi[%s]" % "|".join(sorted(tkey(x, depth + 1) for x in t.a))
    if k in ("agg", "closure"):
        return "%s@%s{%s}" % (t.a[0], t.site, ",".join("%s:%s" % (n, tkey(x, depth + 1)) for n, x in t.a[1]))
    if k == "bin":
        return "%s@%s(%s,%s)" % (t.a[0], t.site, tkey(t.a[1], depth + 1), tkey(t.a[2], depth + 1))
    return tstr(t, depth)


def edge_conditions(fn, target, pruned=()):
    """branch conditions that hold on EVERY path entry -> target: list of (switch block, origin term, labels)
    where labels is the list of labels (variant names / bools / ints) of the single successor edge of the
    switch through which all paths to target go."""
    out = []
    for b, blk in enumerate(fn.blocks):
        t = blk["t"]
        if t["k"] != "switch" or blk["cleanup"] or b == target:
            continue
        if not dominates(fn, b, target, pruned):
            continue
        succ = fn.succs(b)
        via = []
        for s in succ:
            # can target be reached from s without re-entering b?
            if target in reach(fn, [s], avoid=[b], pruned=pruned):
                via.append(s)
        if len(via) == 1:
            term, labels = switch_info(fn, b)
            out.append((b, term, labels.get(via[0], [])))
    return out


def strip_not(term):
    neg = False
    while term.k == "un" and term.a[0] == "Not":
        neg = not neg
        term = term.a[1]
    return term, neg


def value_root(t):
    """look through enum payload projections ((x as Variant).0, tuple .0) to the term producing the value"""
    while True:
        if t.k == "downcast":
            t = t.a[0]
        elif t.k == "field" and t.a[1].isdigit() and t.a[0].k in ("downcast", "call", "field"):
            t = t.a[0]
        else:
            return t


def compare_switch(fn, sw, og=None):
    """for a bool switch whose discriminant is a comparison: (op, lhs term, rhs term, true targets, false targets), `Not` folded in"""
    t = fn.blocks[sw]["t"]
    if t["k"] != "switch":
        return None
    og = og or Origins(fn)
    term, neg = strip_not(og.of_operand(t["d"]))
    if term.k != "bin" or term.a[0] not in ("Lt", "Le", "Gt", "Ge", "Eq", "Ne"):
        return None
    zero, true_t = bool_edges(fn, sw)
    if neg:
        zero, true_t = true_t, zero
    return term.a[0], term.a[1], term.a[2], true_t, zero


def edges_where_less(cmp, a_pred, b_pred):
    """targets of the comparison switch on which `a < b` is possible, for the operands recognised by the two predicates;
    None if the comparison is not between a and b"""
    op, l, r, tt, ft = cmp
    if a_pred(l) and b_pred(r):
        swapped = False
    elif a_pred(r) and b_pred(l):
        swapped = True
    else:
        return None
    if not swapped:
        table = {"Lt": tt, "Le": tt, "Ge": ft, "Gt": ft, "Ne": tt, "Eq": ft}
    else:
        table = {"Gt": tt, "Ge": tt, "Le": ft, "Lt": ft, "Ne": tt, "Eq": ft}
    return table[op]


def error_starts(fn):
    """first blocks of every error-propagation edge in fn: the Break arm of each `?` (Try::branch), and the Err arm of
    every Result-returning call that is matched explicitly"""
    c = fn._cache.get("error_starts")
    if c is not None:
        return c
    out = set()
    for b, t in fn.calls():
        n = cname(t)
        if n.endswith("::branch") and ("Try" in (t.get("callee") or "") or "Try" in n):
            cf = t["dest"]["l"]
            for u2 in uses_of(fn, cf):
                if u2[0] == "stmt" and u2[3]["rv"]["k"] == "discr":
                    dl = u2[3]["p"]["l"]
                    for u3 in uses_of(fn, dl):
                        if u3[0] == "switch":
                            for v, tg in u3[3]["vs"]:
                                if v == 1:
                                    out.add(tg)
        else:
            ty = fn.local_ty(t["dest"]["l"]) if not t["dest"]["p"] else ""
            if ty.startswith("std::result::Result<"):
                rf = result_flow(fn, b)
                if rf.err_blocks and not rf.returned:
                    out.update(rf.err_blocks)
                elif rf.err_blocks:
                    out.update(rf.err_blocks)
    # explicit `return Err(..)`: blocks that build the function's own Err result
    if fn.local_ty(0).startswith("std::result::Result<"):
        for b, blk in enumerate(fn.blocks):
            if blk["cleanup"]:
                continue
            for st in blk["s"]:
                rv = st["rv"]
                if st["p"]["l"] == 0 and not st["p"]["p"] and rv["k"] == "agg" and rv.get("adt") == "std::result::Result" and rv.get("variant") == "Err":
                    out.add(b)
    out = sorted(out)
    fn._cache["error_starts"] = out
    return out


def thin_wrapper(fn):
    """a function that only forwards: no loop, no branching other than panics, at most two non-transparent calls"""
    c = fn._cache.get("thin")
    if c is not None:
        return c
    ok = fn.kind != "closure" and len(fn.blocks) <= 12
    n = 0
    if ok:
        for b, blk in enumerate(fn.blocks):
            if blk["cleanup"]:
                continue
            t = blk["t"]
            if t["k"] == "switch":
                ok = False
                break
            if t["k"] == "call" and not is_transparent(cname(t)):
                n += 1
        ok = ok and 1 <= n <= 2 and not any(in_cycle(fn, b) for b in fn.normal_blocks())
    fn._cache["thin"] = ok
    return ok


def through_thin(facts, t, depth=0):
    """if t is a call to a local thin wrapper, the wrapper's return term with the arguments substituted (recursively);
    rules use this where a getter/forwarding helper may stand between the site and the primitive they look for"""
    if t.k != "call" or depth > 3:
        return t
    callee = facts.fns.get(t.a[0])
    if callee is None or not thin_wrapper(callee):
        return t
    og = Origins(callee, facts)
    inl = og._inline_thin_from(callee, list(t.a[1]), t.site)
    return through_thin(facts, inl, depth + 1) if inl is not None else t


def _subst_params(rt, args, site):
    def subst(t, top=False):
        if t.k == "param":
            i = t.a[0] - 1
            return args[i] if 0 <= i < len(args) else t
        if t.k == "field":
            return project(subst(t.a[0]), t.a[1])
        if t.k == "downcast":
            return Term("downcast", (subst(t.a[0]), t.a[1]))
        if t.k == "call":
            return Term("call", (t.a[0], tuple(subst(x) for x in t.a[1])), site if top else t.site)
        if t.k == "bin":
            return Term("bin", (t.a[0], subst(t.a[1]), subst(t.a[2])), t.site)
        if t.k == "un":
            return Term("un", (t.a[0], subst(t.a[1])), t.site)
        if t.k in ("agg", "closure"):
            return Term(t.k, (t.a[0], tuple((n, subst(x)) for n, x in t.a[1])), t.site)
        if t.k == "discr":
            return Term("discr", subst(t.a))
        if t.k == "index":
            return Term("index", subst(t.a))
        return t
    return subst(rt, True)


def err_edge_defs_of_return(fn, b, err_blocks, og=None):
    """On the Err edge(s) of the Result-returning call in block b: the definitions of the return place `_0` that can be
    live at a `return` reached from there.  Each is classified: 'err' (an Err(..) aggregate, `?`'s from_residual, the
    failed result itself moved/adapted into _0) or 'other' (Ok(..), an unrelated call result, ...).
    Returns (list of (class, block, description)), loops_back: bool)"""
    og = og or Origins(fn)
    site = (fn.id, b)
    region = reach(fn, err_blocks)
    loops_back = b in region

    def from_result(term):
        return any(x.k == "call" and x.site == site for x in walk(term))

    def classify_block(x):
        """last definition of _0 inside block x (statements, then the call terminator), or None"""
        blk = fn.blocks[x]
        last = None
        for st in blk["s"]:
            if st["p"]["l"] == 0 and not st["p"]["p"]:
                rv = st["rv"]
                if rv["k"] == "agg":
                    last = ("err" if rv.get("variant") == "Err" else "other", x, "_0 = %s(..)" % rv.get("variant"))
                elif rv["k"] == "use":
                    term = og.of_operand(rv["a"])
                    last = ("err" if from_result(term) else "other", x, "_0 = %s" % tstr(term)[:60])
                else:
                    last = ("other", x, "_0 = <%s>" % rv["k"])
        t = blk["t"]
        if t["k"] == "call" and t["dest"]["l"] == 0 and not t["dest"]["p"]:
            n = cname(t)
            if n.endswith("::from_residual"):
                last = ("err", x, "from_residual")
            elif any(from_result(og.of_operand(a)) for a in t["args"]):
                last = ("err", x, "_0 = %s(the failed result)" % n.rsplit("::", 1)[-1])
            else:
                last = ("other", x, "_0 = %s(..)" % n)
        return last

    # forward propagation of "last def of _0" over the err region
    state = {}
    work = []
    for e in err_blocks:
        state.setdefault(e, set()).add(None)
        work.append(e)
    out = []
    seen_out = set()
    while work:
        x = work.pop()
        ins = state.get(x, set())
        d = classify_block(x)
        outs = {d} if d is not None else set(ins)
        t = fn.blocks[x]["t"]
        if t["k"] == "return":
            for o in outs:
                if o not in seen_out:
                    seen_out.add(o)
                    out.append(o if o is not None else ("other", x, "_0 not assigned on the error edge"))
        for s in fn.succs(x):
            if fn.blocks[s]["cleanup"]:
                continue
            cur = state.setdefault(s, set())
            if not outs <= cur:
                cur |= outs
                work.append(s)
    return out, loops_back


def consts_at_return(fn, starts, local=0, avoid=()):
    """Tiny path-sensitive constant propagation: starting at blocks `starts` with nothing known, follow every CFG path
    (not through `avoid`) to the returns and report the set of values `local` can hold there: each is a const tuple as
    produced by const_value(), or None for 'not a known constant'. Copies between plain locals are followed, a branch
    on a local with a known value takes only the matching edge, and taking an edge of a switch on a plain local teaches
    that local's (and its copy source's) value on that edge."""
    TOP = "<unknown>"
    state = {}
    work = []
    for s in starts:
        state[s] = {}
        work.append(s)
    results = set()
    avoid = set(avoid)

    def val(env, l):
        v = env.get(l, TOP)
        seen = 0
        while isinstance(v, tuple) and v and v[0] == "alias" and seen < 8:
            v = env.get(v[1], TOP)
            seen += 1
        return TOP if (isinstance(v, tuple) and v and v[0] == "alias") else v

    def kill_aliases(env, l):
        for k in [k for k, v in env.items() if isinstance(v, tuple) and v and v[0] == "alias" and v[1] == l]:
            env[k] = TOP

    def step(env, blk):
        env = dict(env)
        for st in blk["s"]:
            p = st["p"]
            if p["p"]:
                continue
            rv = st["rv"]
            v = TOP
            if rv["k"] == "use":
                a = rv["a"]
                if "const" in a:
                    v = const_value(a["const"])
                else:
                    pl = op_place(a)
                    if pl is not None and not pl["p"]:
                        v = val(env, pl["l"])
                        if v == TOP and pl["l"] != p["l"]:
                            v = ("alias", pl["l"])
            kill_aliases(env, p["l"])
            env[p["l"]] = v
        t = blk["t"]
        if t["k"] == "call" and not t["dest"]["p"]:
            kill_aliases(env, t["dest"]["l"])
            env[t["dest"]["l"]] = TOP
        return env

    def meet(a, b):
        return {k: v for k, v in a.items() if b.get(k, TOP) == v}

    def learn(env, l, iv, ty):
        env = dict(env)
        c = ("bool", bool(iv)) if ty == "bool" else ("int", iv)
        cur = env.get(l, TOP)
        seen = 0
        while True:
            nxt = cur[1] if (isinstance(cur, tuple) and cur and cur[0] == "alias") else None
            env[l] = c
            if nxt is None or seen > 8:
                break
            l, cur = nxt, env.get(nxt, TOP)
            seen += 1
        return env

    iters = 0
    while work and iters < 20000:
        iters += 1
        x = work.pop()
        if x in avoid:
            continue
        blk = fn.blocks[x]
        out = step(state[x], blk)
        if blk["t"]["k"] == "return":
            v = val(out, local)
            results.add(None if v == TOP else v)
        t = blk["t"]
        edges = [(s, out) for s in fn.succs(x)]
        if t["k"] == "switch":
            pl = op_place(t["d"])
            if pl is not None and not pl["p"]:
                v = val(out, pl["l"])
                ty = fn.local_ty(pl["l"])
                if v != TOP and isinstance(v, tuple) and v[0] in ("bool", "int"):
                    iv = int(v[1])
                    hit = [tg for vv, tg in t["vs"] if vv == iv]
                    edges = [(tg, out) for tg in (hit if hit else [t["else"]])]
                else:
                    edges = []
                    for vv, tg in t["vs"]:
                        edges.append((tg, learn(out, pl["l"], vv, ty)))
                    if ty == "bool" and len(t["vs"]) == 1:
                        edges.append((t["else"], learn(out, pl["l"], 1 - t["vs"][0][0], ty)))
                    else:
                        edges.append((t["else"], out))
        for s, env in edges:
            if fn.blocks[s]["cleanup"]:
                continue
            if s not in state:
                state[s] = dict(env)
                work.append(s)
            else:
                m = meet(state[s], env)
                if m != state[s]:
                    state[s] = m
                    work.append(s)
    return results


def same_value_site(a, b):
    """do two terms denote the same dynamic value, judged by their projection chain down to the producing call SITE
    (robust against the depth truncation of very large terms, which tkey() treats as unequal)"""
    for _ in range(64):
        if a.k != b.k:
            return False
        if a.k == "call":
            return a.a[0] == b.a[0] and a.site is not None and a.site == b.site
        if a.k in ("field", "downcast"):
            if a.a[1] != b.a[1]:
                return False
            a, b = a.a[0], b.a[0]
            continue
        if a.k == "param":
            return a.a[0] == b.a[0]
        return tkey(a) == tkey(b)
    return False


def option_switch_on(fn, og, call_block):
    """the switch on Some/None of the Option produced by the call in `call_block`, also when the Option first passes through
    value-preserving adaptors (`.cloned()`, `.copied()`, `.as_ref()`, a move into a local): (switch block, labels) or (None, {})"""
    sw = switch_after_call(fn, call_block)
    if sw is not None:
        return sw, switch_info(fn, sw)[1]
    site = (fn.id, call_block)
    for b, blk in enumerate(fn.blocks):
        t = blk["t"]
        if t["k"] != "switch" or blk["cleanup"]:
            continue
        vm = discr_variants(fn, t["d"])
        if not vm or set(vm.values()) != {"Some", "None"}:
            continue
        term = og.of_operand(t["d"])
        inner = term.a if term.k == "discr" else term
        # descend from the tested value to the call through value-preserving adaptors only
        node = inner
        ok = False
        for _ in range(8):
            while node.k in ("field", "downcast"):
                node = node.a[0]
            if node.k != "call":
                break
            if node.site == site:
                ok = True
                break
            w = node.a[0].rsplit("::", 1)[-1]
            if not (w in ("cloned", "copied", "as_ref", "as_deref", "clone") or is_transparent(node.a[0])) or not node.a[1]:
                break
            node = node.a[1][0]
        if ok and dominates(fn, call_block, b):
            return b, switch_info(fn, b)[1]
    return None, {}
