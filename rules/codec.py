"""A7 — codec sequence extraction: the ordered primitive reads/writes along every success path of an encoder / decoder,
so that writer and reader can be compared position by position (width, endianness, which length field bounds which payload)."""
import re
from . import analysis as A

PRIM = re.compile(r"(?:WriteBytesExt|ReadBytesExt)>?::(write|read)_(u8|i8|u16|u32|u64|u128|i16|i32|i64|f32|f64)$")


def endian(t):
    full = t.get("full") or ""
    if "LittleEndian" in full:
        return "le"
    if "BigEndian" in full:
        return "be"
    return ""


class Tok:
    __slots__ = ("kind", "site", "detail", "ref")

    def __init__(self, kind, site, detail="", ref=None):
        self.kind = kind      # 'u8', 'u32le', 'f32le', 'enc:<Type>', 'bytes', 'call:<fn>', '<back>'
        self.site = site      # block
        self.detail = detail
        self.ref = ref        # for 'bytes': index (within the sequence) of the token carrying its length, 'fixed:N', or None

    def __repr__(self):
        if self.kind == "bytes":
            return "bytes(%s)" % (self.ref,)
        return self.kind


def token_of_call(fn, b, t, og, direction):
    """primitive token for the call in block b, or None. direction: 'w' or 'r'"""
    n = A.cname(t)
    c = t.get("callee") or ""
    m = PRIM.search(n) or PRIM.search(c)
    if m:
        rw, ty = m.group(1), m.group(2)
        if (rw == "write") != (direction == "w"):
            return Tok("WRONG-DIRECTION:" + n, b)
        width = ty + ("" if ty in ("u8", "i8") else endian(t))
        return Tok(width, b)
    leaf = n.rsplit("::", 1)[-1]
    if direction == "w" and ("coding::Encode" in n or "coding::Encode" in c) and leaf == "encode_into":
        ty = (t.get("full") or n)
        mm = re.match(r"<(.+?) as lsm_tree::coding::Encode>", ty)
        return Tok("enc:" + (mm.group(1) if mm else "?"), b)
    if direction == "r" and ("coding::Decode" in n or "coding::Decode" in c) and leaf == "decode_from":
        ty = (t.get("full") or n)
        mm = re.match(r"<(.+?) as lsm_tree::coding::Decode>", ty)
        return Tok("enc:" + (mm.group(1) if mm else "?"), b)
    if direction == "w" and leaf == "write_all" and ("io::Write" in n or "io::Write" in c):
        return Tok("bytes", b)
    if direction == "r" and (leaf == "read_exact" and ("io::Read" in n or "io::Read" in c) or n.startswith("lsm_tree::Slice::from_reader")):
        return Tok("bytes", b)
    return None


def sequences(facts, fn, start_blocks, direction, inline=None, limit=64, stop=()):
    """set of token sequences (tuples of Tok) along all success paths from start_blocks to a return.
    inline: {fn id: direction} local codec fns whose sequences are spliced in at their call sites."""
    inline = inline or {}
    og = A.Origins(fn)
    errs = set(A.error_starts(fn))
    memo = {}
    onstack = set()

    def tok_at(b):
        t = fn.term(b)
        if t["k"] != "call":
            return None
        n = A.cname(t)
        if n in inline or n.split("::<")[0] in inline:
            key = n if n in inline else n.split("::<")[0]
            sub = facts.fns.get(key)
            if sub is not None:
                subs = sequences(facts, sub, [0], inline[key], inline, limit)
                return ("inline", key, subs, b)
        return token_of_call(fn, b, t, og, direction)

    def go(b):
        if b in memo:
            return memo[b]
        if b in onstack:
            return {(Tok("<back>", b),)}
        if b in errs or fn.is_cleanup(b):
            return set()
        onstack.add(b)
        t = fn.term(b)
        here = tok_at(b)
        nxt = set()
        if b in stop:
            nxt = {()}
        elif t["k"] == "return":
            nxt = {()}
        else:
            for s in fn.succs(b):
                for q in go(s):
                    nxt.add(q)
                    if len(nxt) > limit:
                        break
        onstack.discard(b)
        out = set()
        if here is None:
            out = nxt
        elif isinstance(here, tuple):
            for pre in here[2]:
                for q in nxt:
                    out.add(tuple(pre) + q)
        else:
            for q in nxt:
                out.add((here,) + q)
        # sequences containing <back> of an enclosing loop are only cacheable when no loop is open
        if not onstack:
            memo[b] = out
        return out

    res = set()
    for s in start_blocks:
        res |= go(s)
    return res


def shape(seq):
    return tuple(t.kind for t in seq)


def length_refs(fn, seq, direction):
    """for each 'bytes' token: which earlier token of the same sequence carries its length.
    writer: bytes(X) is bounded by the token that wrote len(X) (possibly cast); reader: bytes(n) by the token that read n."""
    og = A.Origins(fn)
    out = []
    for i, t in enumerate(seq):
        if t.kind != "bytes":
            out.append(None)
            continue
        term = fn.term(t.site)
        ref = None
        if direction == "w":
            payload = og.of_operand(term["args"][1])
            pk = A.tkey(payload)
            if payload.k == "const" or (payload.k == "const" and payload.a[0] in ("def", "bytes")):
                ref = "fixed"
            for j in range(i):
                tj = seq[j]
                if tj.kind in ("bytes", "<back>") or tj.kind.startswith("enc:"):
                    continue
                tt = fn.term(tj.site)
                if len(tt["args"]) < 2:
                    continue
                val = og.of_operand(tt["args"][1])
                for x in A.walk(val):
                    if x.k == "call" and x.a[0].endswith("::len") and x.a[1] and A.tkey(x.a[1][0]) == pk:
                        ref = j
        else:
            # reader: from_reader(reader, n) / read_exact(buf)
            if A.cname(term).startswith("lsm_tree::Slice::from_reader"):
                n = og.of_operand(term["args"][1])
                for j in range(i):
                    tj = seq[j]
                    if tj.kind in ("bytes", "<back>") or tj.kind.startswith("enc:"):
                        continue
                    for x in A.walk(n):
                        if x.k == "call" and x.site == (fn.id, tj.site):
                            ref = j
            else:
                ref = "fixed"
        out.append(ref)
    return out
