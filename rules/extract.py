"""Fact extraction management: runs the E1 driver over /repo's *current* working tree (cargo +nightly
check with RUSTC_WORKSPACE_WRAPPER) and caches the fact file by a hash of the analysed sources."""
import fcntl, hashlib, json, os, shutil, subprocess, sys, time, glob

VERIF = os.path.dirname(os.path.dirname(os.path.abspath(__file__)))
REPO = os.environ.get("VERIF_REPO", "/repo")
CACHE = os.path.join(VERIF, ".cache")
DRIVER_DIR = os.path.join(VERIF, "driver")
DRIVER = os.path.join(DRIVER_DIR, "target", "release", "fvdriver")

# cfg-sets: the feature combinations the crate can be built with
CFGS = {
    "default": [],
    "nodefault": ["--no-default-features"],
    "all": ["--all-features"],
    "bytes_1": ["--features", "bytes_1"],
    "metrics": ["--features", "metrics"],
    "whitebox": ["--features", "__internal_whitebox"],
}
QUICK_CFGS = ["default"]
THOROUGH_CFGS = ["default", "nodefault", "all", "bytes_1", "metrics", "whitebox"]

MIN_FNS = 500  # 530 body owners on the pinned tree; fewer means the extraction is broken


def sysroot():
    return subprocess.check_output(["rustc", "+nightly", "--print", "sysroot"], text=True).strip()


def source_hash(repo=None):
    repo = repo or REPO
    h = hashlib.sha256()
    files = ["Cargo.toml", "Cargo.lock"]
    for root, dirs, fs in os.walk(os.path.join(repo, "src")):
        dirs.sort()
        for f in sorted(fs):
            files.append(os.path.relpath(os.path.join(root, f), repo))
    for f in files:
        p = os.path.join(repo, f)
        if not os.path.exists(p):
            continue
        h.update(f.encode())
        h.update(b"\0")
        with open(p, "rb") as fh:
            h.update(fh.read())
        h.update(b"\0")
    # the driver itself is part of the key
    with open(os.path.join(DRIVER_DIR, "src", "main.rs"), "rb") as fh:
        h.update(fh.read())
    return h.hexdigest()[:24]


def build_driver(verbose=False):
    if os.path.exists(DRIVER) and os.path.getmtime(DRIVER) >= os.path.getmtime(os.path.join(DRIVER_DIR, "src", "main.rs")):
        return
    env = dict(os.environ, CARGO_NET_OFFLINE="true")
    r = subprocess.run(["cargo", "build", "--release", "--offline"], cwd=DRIVER_DIR, env=env,
                       stdout=subprocess.PIPE, stderr=subprocess.STDOUT, text=True)
    if r.returncode != 0 or not os.path.exists(DRIVER):
        sys.stderr.write(r.stdout)
        raise SystemExit("MACHINERY: cannot build the fact extractor (driver/)")


def facts_for(cfg="default", repo=None, verbose=False, target_dir=None, out_root=None):
    """returns the path of the fact file for /repo's current tree under cfg-set `cfg`"""
    repo = repo or REPO
    os.makedirs(CACHE, exist_ok=True)
    build_driver(verbose)
    h = source_hash(repo)
    out_root = out_root or os.path.join(CACHE, "facts")
    out_dir = os.path.join(out_root, h, cfg)
    out = os.path.join(out_dir, "fjall.json")
    if os.path.exists(out):
        return out
    target = target_dir or os.path.join(CACHE, "target-" + cfg)
    os.makedirs(target, exist_ok=True)
    # one extraction at a time per TARGET DIRECTORY (cargo's own unit of exclusion): scratch copies that bring their own
    # target dir (self-test workers) extract in parallel
    lock = open(os.path.join(CACHE, "lock-" + (cfg if not target_dir else os.path.basename(os.path.normpath(target_dir)))), "w")
    fcntl.flock(lock, fcntl.LOCK_EX)
    try:
        if os.path.exists(out):
            return out
        os.makedirs(out_dir, exist_ok=True)
        # cargo's freshness cache would skip the wrapper on a warm dir: forget the workspace member only
        for fp in glob.glob(os.path.join(target, "debug", ".fingerprint", "fjall-*")):
            shutil.rmtree(fp, ignore_errors=True)
        env = dict(os.environ)
        env.update({
            "LD_LIBRARY_PATH": sysroot() + "/lib:" + env.get("LD_LIBRARY_PATH", ""),
            "RUSTFLAGS": "-Zmir-opt-level=0 -Awarnings",
            "RUSTC_WORKSPACE_WRAPPER": DRIVER,
            "VERIF_FACTS_DIR": out_dir,
            "VERIF_CRATES": "fjall",
            "CARGO_TARGET_DIR": target,
            "CARGO_NET_OFFLINE": "true",
            "CARGO_INCREMENTAL": "0",
        })
        env.pop("RUSTC_WRAPPER", None)
        cmd = ["cargo", "+nightly", "check", "--offline", "--lib"] + CFGS[cfg]
        t0 = time.time()
        r = subprocess.run(cmd, cwd=repo, env=env, stdout=subprocess.PIPE, stderr=subprocess.STDOUT, text=True)
        if r.returncode != 0 or not os.path.exists(out):
            sys.stderr.write(r.stdout[-6000:])
            shutil.rmtree(out_dir, ignore_errors=True)
            raise SystemExit("MACHINERY: fact extraction failed for cfg-set %s (does /repo build?)" % cfg)
        if verbose:
            sys.stderr.write("extracted %s in %.1fs\n" % (out, time.time() - t0))
        # keep the cache small: drop fact dirs of older source hashes (keep the 6 newest)
        try:
            ds = sorted(glob.glob(os.path.join(out_root, "*")), key=os.path.getmtime, reverse=True)
            for d in ds[6:]:
                shutil.rmtree(d, ignore_errors=True)
        except OSError:
            pass
        return out
    finally:
        fcntl.flock(lock, fcntl.LOCK_UN)
        lock.close()


def dep_facts(crate="lsm_tree", repo=None, verbose=False):
    """fact file of a dependency crate (thorough tier only): the whole build goes through the driver as RUSTC_WRAPPER"""
    repo = repo or REPO
    build_driver(verbose)
    h = hashlib.sha256()
    with open(os.path.join(repo, "Cargo.lock"), "rb") as fh:
        h.update(fh.read())
    with open(os.path.join(DRIVER_DIR, "src", "main.rs"), "rb") as fh:
        h.update(fh.read())
    out_dir = os.path.join(CACHE, "facts-deps", h.hexdigest()[:16])
    out = os.path.join(out_dir, crate + ".json")
    if os.path.exists(out):
        return out
    target = os.path.join(CACHE, "target-deps")
    os.makedirs(out_dir, exist_ok=True)
    os.makedirs(target, exist_ok=True)
    lock = open(os.path.join(CACHE, "lock-deps"), "w")
    fcntl.flock(lock, fcntl.LOCK_EX)
    try:
        if os.path.exists(out):
            return out
        for fp in glob.glob(os.path.join(target, "debug", ".fingerprint", crate.replace("_", "-") + "-*")):
            shutil.rmtree(fp, ignore_errors=True)
        env = dict(os.environ)
        env.update({
            "LD_LIBRARY_PATH": sysroot() + "/lib:" + env.get("LD_LIBRARY_PATH", ""),
            "RUSTFLAGS": "-Zmir-opt-level=0 -Awarnings",
            "RUSTC_WRAPPER": DRIVER,
            "VERIF_FACTS_DIR": out_dir,
            "VERIF_CRATES": crate,
            "CARGO_TARGET_DIR": target,
            "CARGO_NET_OFFLINE": "true",
            "CARGO_INCREMENTAL": "0",
        })
        env.pop("RUSTC_WORKSPACE_WRAPPER", None)
        r = subprocess.run(["cargo", "+nightly", "check", "--offline", "--lib"], cwd=repo, env=env,
                           stdout=subprocess.PIPE, stderr=subprocess.STDOUT, text=True)
        if r.returncode != 0 or not os.path.exists(out):
            sys.stderr.write(r.stdout[-4000:])
            return None
        return out
    finally:
        fcntl.flock(lock, fcntl.LOCK_UN)
        lock.close()


if __name__ == "__main__":
    cfgs = sys.argv[1:] or ["default"]
    for c in cfgs:
        print(facts_for(c, verbose=True))
