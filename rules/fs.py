"""Who may touch the file system (who-may-call table over resolved callees). Shared by C02/C10/C12/C17."""
from . import analysis as A

# mutating std::fs primitives -> the only functions allowed to call them (confirmed by reading), with the reason
MUTATORS = {
    "std::fs::File::create_new": {
        "journal::writer::Writer::create_new": "new journal file",
        "locked_file::LockedFileGuard::create_new": "lock file of a fresh database",
    },
    "std::fs::File::set_len": {
        "journal::batch_reader::JournalBatchReader::truncate_to": "tail repair: discard an unterminated batch",
        "journal::reader::JournalReader::truncate_file": "tail repair: discard a torn entry",
        "journal::writer::Writer::create_new": "journal pre-allocation",
        "journal::writer::Writer::from_file": "journal pre-allocation (re-created active journal)",
    },
    "std::fs::OpenOptions::open": {
        "journal::batch_reader::JournalBatchReader::truncate_to": "re-open journal for truncation",
        "journal::reader::JournalReader::new": "journal reader (read+write for truncation)",
        "journal::writer::Writer::from_file": "open active journal for append",
        "locked_file::LockedFileGuard::create_new": "lock file",
        "locked_file::LockedFileGuard::try_acquire": "lock file",
    },
    "std::fs::create_dir_all": {
        "db::Database::create_new": "database + keyspaces folder",
        "journal::Journal::create_new": "journal folder",
        "keyspace::Keyspace::create_new": "keyspace folder",
    },
    "std::fs::remove_dir_all": {
        "<locked_file::LockedFileGuardInner as std::ops::Drop>::drop": "temporary database clean-up, by the LAST holder of the lock and while the lock is still held",
        "<keyspace::KeyspaceInner as std::ops::Drop>::drop": "deleted keyspace, last handle dropped",
        "recovery::recover_keyspaces": "unreferenced / uninitialised keyspace folders",
    },
    "std::fs::remove_file": {
        "db::Database::create_new": "the never-used first journal of a creation that was interrupted before its version marker (resumed under the lock)",
        "<keyspace::KeyspaceInner as std::ops::Drop>::drop": "manifest of a deleted keyspace (before the folder)",
        "journal::manager::JournalManager::maintenance": "fully flushed sealed journal",
    },
    "std::fs::File::create": {
        "db::Database::create_new": "version marker of a fresh database, under its temporary name",
    },
    "std::fs::rename": {
        "db::Database::create_new": "the complete version marker is renamed into place",
    },
}
# mutating primitives nobody may call today
FORBIDDEN = ("std::fs::write", "std::fs::remove_dir", "std::fs::copy",
             "std::fs::hard_link", "std::fs::create_dir", "std::fs::File::options", "std::fs::set_permissions",
             "std::fs::File::set_permissions", "std::fs::File::set_times", "std::fs::File::set_modified",
             "std::fs::OpenOptions::truncate", "std::fs::OpenOptions::create", "std::os::unix::fs::symlink",
             "std::fs::soft_link")
READ_ONLY = ("std::fs::DirEntry::", "std::fs::File::metadata", "std::fs::File::open", "std::fs::File::sync_all",
             "std::fs::File::sync_data", "std::fs::File::try_lock", "std::fs::File::unlock", "std::fs::FileType::",
             "std::fs::Metadata::", "std::fs::OpenOptions::append", "std::fs::OpenOptions::create_new",
             "std::fs::OpenOptions::new", "std::fs::OpenOptions::read", "std::fs::OpenOptions::write", "std::fs::read",
             "std::fs::read_dir", "std::fs::ReadDir", "std::fs::metadata", "std::fs::read_to_string", "std::fs::File::try_clone",
             "std::fs::File::lock", "std::fs::File::lock_shared", "std::fs::File::try_lock_shared")

# mutators relevant to journal files
JOURNAL_FILE_MUTATORS = ("std::fs::File::set_len", "std::fs::remove_file", "std::fs::OpenOptions::open", "std::fs::File::create_new")


def check_fs_table(ctx, rule, only=None, fn_filter=None):
    """one obligation per fs-mutating call site in the crate; `only` restricts to some primitives, `fn_filter` to some functions"""
    n = 0
    for fid, fn in ctx.F.fns.items():
        if fn_filter and not fn_filter(fid):
            continue
        for b, t in fn.calls():
            name = A.cname(t)
            if not (name.startswith("std::fs::") or name.startswith("std::os::unix::fs::")):
                continue
            base = name.split("::<")[0]
            if only and base not in only and base not in FORBIDDEN:
                continue
            ctx.count_sites()
            if base in MUTATORS:
                n += 1
                ok = fid in MUTATORS[base]
                ctx.ob(rule, fn, "may-call-%s" % base.rsplit("::", 2)[-2] + "::" + base.rsplit("::", 1)[-1], ok,
                       "%s called by %s: %s" % (base, fid, MUTATORS[base][fid] if ok else "NOT in the who-may-call table %s" % sorted(MUTATORS[base])),
                       fn.loc(b), nontrivial=False)
            elif base in FORBIDDEN:
                if base in ("std::fs::OpenOptions::truncate", "std::fs::OpenOptions::create") and len(t["args"]) > 1:
                    v = A.Origins(fn).of_operand(t["args"][1])
                    if v.k == "const" and v.a == ("bool", False):
                        continue  # `.create(false)` / `.truncate(false)` change nothing
                n += 1
                ctx.ob(rule, fn, "forbidden-%s" % base.rsplit("::", 1)[-1], False, "%s is not used anywhere on the reference tree; new destructive fs call in %s" % (base, fid), fn.loc(b))
            elif not any(base.startswith(r) for r in READ_ONLY):
                ctx.ob(rule, fn, "unknown-fs-primitive-%s" % base.rsplit("::", 1)[-1], False, "unclassified std::fs primitive %s (fail closed: add it to the table after review)" % base, fn.loc(b))
    return n
