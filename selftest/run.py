#!/usr/bin/env python3
"""E4 — tests the checker both ways on scratch copies of /repo's *current* tree.

  selftest/run.py [--only <id-substr>] [--prop Cxx] [--jobs N] [--list] [--json out.json] [--keep]

break mutants  (selftest/mutants.py: BREAK): one small edit that still compiles; the named property's check
               must report a violation whose key starts with the expected prefix.
equiv mutants  (EQUIV): behaviour-preserving refactors; every listed property's check must stay silent.

Scratch copies live under $(mktemp -d) outside /repo and /verif and are removed when done. An edit whose
context is not found in the current tree is skipped and reported (the tree under test may itself be a variant).
"""
import argparse, json, os, shutil, subprocess, sys, tempfile, time, importlib
from multiprocessing import Pool

VERIF = os.path.dirname(os.path.dirname(os.path.abspath(__file__)))
sys.path.insert(0, VERIF)
from rules import extract, core          # noqa: E402
from rules.facts import Facts            # noqa: E402
from selftest import mutants             # noqa: E402

REPO = extract.REPO
# recorded (unrepaired) findings of the reference tree are not what a mutant is judged by: exact keys only
KNOWN_KEYS = {k["key"] for k in core.load_known().get("known", [])}


def make_scratch(edits, patch=None):
    d = tempfile.mkdtemp(prefix="fjall-st-")
    for f in ("Cargo.toml", "Cargo.lock"):
        shutil.copy(os.path.join(REPO, f), os.path.join(d, f))
    shutil.copytree(os.path.join(REPO, "src"), os.path.join(d, "src"))
    if patch:
        # a stored seeded change (seeded/<id>/patch.diff): applied like `git -C /repo apply`
        subprocess.run(["git", "init", "-q", "."], cwd=d, stdout=subprocess.DEVNULL, stderr=subprocess.DEVNULL)
        r = subprocess.run(["git", "apply", patch], cwd=d, stdout=subprocess.PIPE, stderr=subprocess.STDOUT, text=True)
        shutil.rmtree(os.path.join(d, ".git"), ignore_errors=True)
        if r.returncode != 0:
            # the tree moved on since the seed was stored (later fix commits): retry with context fuzz
            r2 = subprocess.run(["patch", "-p1", "-F3", "--no-backup-if-mismatch", "-i", patch], cwd=d, stdout=subprocess.PIPE, stderr=subprocess.STDOUT, text=True)
            if r2.returncode != 0:
                return d, "patch does not apply to the current tree: %s" % r.stdout.strip()[:120]
    for e in edits:
        p = os.path.join(d, e["file"])
        if not os.path.exists(p):
            return d, "file %s missing" % e["file"]
        s = open(p).read()
        n = s.count(e["old"])
        if n == 0:
            return d, "context not found in %s" % e["file"]
        if n > 1 and not e.get("all"):
            idx = e.get("nth")
            if idx is None:
                return d, "context ambiguous (%d matches) in %s" % (n, e["file"])
            parts = s.split(e["old"])
            s = e["old"].join(parts[:idx + 1]) + e["new"] + e["old"].join(parts[idx + 1:])
        else:
            s = s.replace(e["old"], e["new"])
        with open(p, "w") as f:
            f.write(s)
        os.utime(p, None)
    return d, None


def run_checks(scratch, props, slot, raw=False):
    """returns {prop: [violation keys]} using a private target dir for this worker slot"""
    target = os.path.join(extract.CACHE, "target-st-%d" % slot)
    if not os.path.isdir(target):
        base = os.path.join(extract.CACHE, "target-default")
        if os.path.isdir(base):
            shutil.copytree(base, target, symlinks=True)
    out_root = os.path.join(scratch, ".facts")
    path = extract.facts_for("default", repo=scratch, target_dir=target, out_root=out_root)
    F = Facts(path)
    res = {}
    for p in props:
        if not os.path.exists(os.path.join(VERIF, "rules", "props", p + ".py")):
            continue
        mod = importlib.import_module("rules.props." + p)
        ctx = core.Ctx(p, F, "default", "quick")
        core.run_module(mod, ctx)
        res[p] = [(o.key, o.detail) for o in ctx.obs if not o.ok and (raw or o.key not in KNOWN_KEYS)]
    return res


def one(args):
    m, slot, keep = args
    t0 = time.time()
    scratch, err = make_scratch(m["edits"], m.get("patch"))
    rec = {"id": m["id"], "kind": m["kind"], "status": None, "detail": "", "wall_s": 0}
    try:
        if err:
            rec["status"] = "skipped"
            rec["detail"] = err
            return rec
        try:
            res = run_checks(scratch, m["props"], slot, raw=(m["kind"] == "repair"))
        except SystemExit as e:
            rec["status"] = "invalid"
            rec["detail"] = "mutant does not build: %s" % e
            return rec
        if m["kind"] == "repair":
            # a scratch copy in which ONE recorded finding is repaired: exactly that key must disappear, nothing new may appear
            keys = [k for p in m["props"] for k, _ in res.get(p, [])]
            new = [k for k in keys if k not in KNOWN_KEYS]
            still = m["gone"] in keys
            rec["status"] = "silent" if (not still and not new) else "FALSE-ALARM"
            rec["detail"] = "" if rec["status"] == "silent" else ("repaired finding still reported: %s" % m["gone"] if still else "new: %s" % new[:3])
            return rec
        if m["kind"] == "break":
            keys = [k for p in m["props"] for k, _ in res.get(p, [])]
            hit = [k for k in keys if k.startswith(m["expect"])]
            rec["status"] = "detected" if hit else "MISSED"
            rec["detail"] = "; ".join(hit[:3]) if hit else "expected key prefix %s; got %s" % (m["expect"], keys[:5])
            rec["all_keys"] = keys
        else:
            noisy = {p: v for p, v in res.items() if v}
            rec["status"] = "silent" if not noisy else "FALSE-ALARM"
            rec["detail"] = "" if not noisy else json.dumps({p: [k for k, _ in v][:3] for p, v in noisy.items()})
        return rec
    finally:
        rec["wall_s"] = round(time.time() - t0, 2)
        if not keep:
            shutil.rmtree(scratch, ignore_errors=True)


def _init(counter):
    global SLOT
    with counter.get_lock():
        SLOT = counter.value
        counter.value += 1


def _work(a):
    m, keep = a
    return one((m, SLOT, keep))


def main():
    ap = argparse.ArgumentParser()
    ap.add_argument("--only")
    ap.add_argument("--prop")
    ap.add_argument("--jobs", type=int, default=8)
    ap.add_argument("--list", action="store_true")
    ap.add_argument("--json")
    ap.add_argument("--keep", action="store_true")
    a = ap.parse_args()
    ms = mutants.all_mutants()
    if a.only:
        ms = [m for m in ms if any(o and o in m["id"] for o in a.only.split(","))]
    if a.prop:
        sel = []
        for m in ms:
            if a.prop in m["props"]:
                if m["kind"] == "equiv":
                    m = dict(m, props=[a.prop])
                sel.append(m)
        ms = sel
    if a.list:
        for m in ms:
            print(m["kind"], m["id"], m["props"], m.get("expect", ""))
        return 0
    extract.build_driver()
    extract.facts_for("default")  # warm the shared dependency cache
    from multiprocessing import Value
    counter = Value("i", 0)
    with Pool(min(a.jobs, max(1, len(ms))), initializer=_init, initargs=(counter,)) as pool:
        recs = pool.map(_work, [(m, a.keep) for m in ms], chunksize=1)
    bad = 0
    for r in recs:
        flag = "  " if r["status"] in ("detected", "silent") else ("??" if r["status"] in ("skipped",) else "!!")
        if r["status"] in ("MISSED", "FALSE-ALARM", "invalid"):
            bad += 1
        print("%s %-11s %-45s %5.1fs  %s" % (flag, r["status"], r["id"], r["wall_s"], r["detail"][:200]))
    summ = {"break": sum(1 for r in recs if r["kind"] == "break"), "detected": sum(1 for r in recs if r["status"] == "detected"),
            "equiv": sum(1 for r in recs if r["kind"] in ("equiv", "repair")), "silent": sum(1 for r in recs if r["status"] == "silent"),
            "skipped": sum(1 for r in recs if r["status"] == "skipped"), "bad": bad}
    print("selftest:", json.dumps(summ))
    if a.json:
        with open(a.json, "w") as f:
            json.dump({"summary": summ, "records": recs}, f, indent=1)
    return 2 if bad else 0


if __name__ == "__main__":
    sys.exit(main())
