"""Mutation corpus for E4: BREAK = single edits that violate a property (still compile, leave the 112 tests green by
construction); EQUIV = behaviour-preserving refactors on which every rule must stay silent."""

BREAK = []
EQUIV = []

KS = "src/keyspace/mod.rs"
BATCH = "src/batch/mod.rs"
DB = "src/db.rs"
WRITER = "src/journal/writer.rs"
REC = "src/recovery.rs"
TRACKER = "src/snapshot_tracker.rs"


def B(id, prop, expect, file, old, new, **kw):
    BREAK.append({"id": id, "kind": "break", "props": [prop], "expect": expect,
                  "edits": [dict(file=file, old=old, new=new, **kw)]})


def B2(id, prop, expect, edits):
    BREAK.append({"id": id, "kind": "break", "props": [prop], "expect": expect,
                  "edits": [dict(file=e[0], old=e[1], new=e[2], **(e[3] if len(e) > 3 else {})) for e in edits]})


ALL = ["C%02d" % i for i in range(1, 19)]


def E(id, file, old, new, props=None, **kw):
    EQUIV.append({"id": id, "kind": "equiv", "props": props or ALL, "edits": [dict(file=file, old=old, new=new, **kw)]})


def E2(id, edits, props=None):
    EQUIV.append({"id": id, "kind": "equiv", "props": props or ALL, "edits": [dict(file=f, old=o, new=n) for f, o, n in edits]})


# ======================================================================== C13
B("C13-clear-no-poison", "C13", "C13:R-C13.1:keyspace::Keyspace::clear:write_clear", KS,
  """            .write_clear(self.id, seqno)
            .inspect_err(|_| {
                self.is_poisoned.poison();
            })?;""",
  """            .write_clear(self.id, seqno)?;""")
B("C13-batch-no-poison", "C13", "C13:R-C13.1:batch::WriteBatch::commit:write_batch", BATCH,
  """            .write_batch(self.data.iter(), self.data.len(), batch_seqno)
            .inspect_err(|_| {
                self.db.is_poisoned.poison();
            })?;""",
  """            .write_batch(self.data.iter(), self.data.len(), batch_seqno)?;""")
B("C13-insert-persist-no-poison", "C13", "C13:R-C13.1:keyspace::Keyspace::insert:persist", KS,
  """                .inspect_err(|e| {
                    log::error!("persist failed, which is a FATAL, and possibly hardware-related, failure: {e:?}");
                    self.is_poisoned.poison();
                })?;
        }

        let (item_size, memtable_size) = self.tree.insert(key, value, seqno);""",
  """                .inspect_err(|e| {
                    log::error!("persist failed, which is a FATAL, and possibly hardware-related, failure: {e:?}");
                })?;
        }

        let (item_size, memtable_size) = self.tree.insert(key, value, seqno);""")
B("C13-check-before-lock", "C13", "C13:R-C13.2:keyspace::Keyspace::remove:check-after-lock", KS,
  """        let key = key.into();

        let mut journal_writer = self.supervisor.journal.get_writer()?;

        // IMPORTANT: Check the poisoned flag after getting journal mutex, otherwise TOCTOU
        if self.is_poisoned.is_poisoned() {
            return Err(crate::Error::Poisoned);
        }

        let seqno = self.supervisor.seqno.next();

        journal_writer
            .write_raw(self.id, &key, &[], lsm_tree::ValueType::Tombstone, seqno)""",
  """        let key = key.into();

        if self.is_poisoned.is_poisoned() {
            return Err(crate::Error::Poisoned);
        }

        let mut journal_writer = self.supervisor.journal.get_writer()?;

        let seqno = self.supervisor.seqno.next();

        journal_writer
            .write_raw(self.id, &key, &[], lsm_tree::ValueType::Tombstone, seqno)""")
B("C13-db-persist-swallow", "C13", "C13:R-C13.1:db::Database::persist", DB,
  """        if let Err(e) = self.supervisor.journal.persist(mode) {
            self.is_poisoned.poison();

            log::error!(""",
  """        if let Err(e) = self.supervisor.journal.persist(mode) {
            log::error!(""")
B("C13-poison-reset", "C13", "C13:R-C13.3", "src/poison.rs",
  """    pub fn poison(&self) {
        self.0.store(true, std::sync::atomic::Ordering::Release);
    }""",
  """    pub fn poison(&self) {
        self.0.store(true, std::sync::atomic::Ordering::Release);
    }

    pub fn reset(&self) {
        self.0.store(false, std::sync::atomic::Ordering::Release);
    }""")
B("C13-keyspace-own-flag", "C13", "C13:R-C13.3:keyspace::Keyspace::create_new", KS,
  """            is_deleted: AtomicBool::default(),
            is_poisoned: db.is_poisoned.clone(),
            stats: db.stats.clone(),
            lock_file: db.lock_file.clone(),""",
  """            is_deleted: AtomicBool::default(),
            is_poisoned: PoisonSignal::default(),
            stats: db.stats.clone(),
            lock_file: db.lock_file.clone(),""")
B("C13-worker-error-no-poison", "C13", "C13:R-C13.4", "src/worker_pool.rs",
  """                                        log::error!("Worker #{i} crashed: {e:?}");
                                        poison_dart.poison();
                                        return Err(e);""",
  """                                        log::error!("Worker #{i} crashed: {e:?}");
                                        let _ = &poison_dart;
                                        return Err(e);""")
B("C13-persist-result-ok", "C13", "C13:R-C13", KS,
  """        if !self.config.manual_journal_persist {
            journal_writer
                .persist(crate::PersistMode::Buffer)
                .map_err(|e| {
                    log::error!("persist failed, which is a FATAL, and possibly hardware-related, failure: {e:?}");
                    self.is_poisoned.poison();
                    e
                })?;
        }""",
  """        if !self.config.manual_journal_persist {
            journal_writer.persist(crate::PersistMode::Buffer).ok();
        }""")

# ======================================================================== C14
B("C14-seqno-before-lock", "C14", "C14:R-C14.1:keyspace::Keyspace::insert:seqno-draw", KS,
  """        let mut journal_writer = self.supervisor.journal.get_writer()?;

        // IMPORTANT: Check the poisoned flag after getting journal mutex, otherwise TOCTOU
        if self.is_poisoned.is_poisoned() {
            return Err(crate::Error::Poisoned);
        }

        let seqno = self.supervisor.seqno.next();

        journal_writer
            .write_raw(self.id, &key, &value, lsm_tree::ValueType::Value, seqno)""",
  """        let seqno = self.supervisor.seqno.next();

        let mut journal_writer = self.supervisor.journal.get_writer()?;

        // IMPORTANT: Check the poisoned flag after getting journal mutex, otherwise TOCTOU
        if self.is_poisoned.is_poisoned() {
            return Err(crate::Error::Poisoned);
        }

        journal_writer
            .write_raw(self.id, &key, &value, lsm_tree::ValueType::Value, seqno)""")
B("C14-apply-after-unlock", "C14", "C14:R-C14.1:keyspace::Keyspace::remove:apply", KS,
  """        let (item_size, memtable_size) = self.tree.remove(key, seqno);

        self.supervisor.snapshot_tracker.publish(seqno);

        drop(journal_writer);

        self.supervisor.write_buffer_size.allocate(item_size);
        self.maintenance(memtable_size);

        Ok(())
    }

    /// Removes an item from the keyspace, leaving behind a weak tombstone.""",
  """        drop(journal_writer);

        let (item_size, memtable_size) = self.tree.remove(key, seqno);

        self.supervisor.snapshot_tracker.publish(seqno);

        self.supervisor.write_buffer_size.allocate(item_size);
        self.maintenance(memtable_size);

        Ok(())
    }

    /// Removes an item from the keyspace, leaving behind a weak tombstone.""")
B("C14-batch-publish-after-unlock", "C14", "C14:R-C14.1:batch::WriteBatch::commit:publish", BATCH,
  """        self.db.supervisor.snapshot_tracker.publish(batch_seqno);

        drop(journal_writer);""",
  """        drop(journal_writer);

        self.db.supervisor.snapshot_tracker.publish(batch_seqno);""")
B("C14-maintenance-under-lock", "C14", "C14:R-C14.3", KS,
  """        drop(journal_writer);

        self.supervisor.write_buffer_size.allocate(item_size);
        self.maintenance(memtable_size);

        Ok(())
    }

    /// Removes an item from the keyspace.""",
  """        self.supervisor.write_buffer_size.allocate(item_size);
        self.maintenance(memtable_size);

        drop(journal_writer);

        Ok(())
    }

    /// Removes an item from the keyspace.""")
B("C14-rotate-without-id-check", "C14", "C14:R-C14.2:keyspace::Keyspace::inner_rotate_memtable:id-recheck", KS,
  """        if self.tree.active_memtable().id() != memtable_id {
            return Ok(false);
        }

        // Rotate memtable""",
  """        let _ = memtable_id;

        // Rotate memtable""")
B("C14-ingest-lock-dropped", "C14", "C14:R-C14.2:ingestion::Ingestion::<'a>::finish", "src/ingestion.rs",
  """        let _journal_lock = self.keyspace.supervisor.journal.get_writer();""",
  """        drop(self.keyspace.supervisor.journal.get_writer());""")
B("C14-lock-order-cycle", "C14", "C14:R-C14.4:<lock-order>:cycle", DB,
  """    pub fn journal_count(&self) -> usize {
        self.supervisor
            .journal_manager
            .read()
            .expect("lock is poisoned")
            .journal_count()
    }""",
  """    pub fn journal_count(&self) -> usize {
        let keyspaces = self.supervisor.keyspaces.read().expect("lock is poisoned");
        let _w = self.supervisor.journal.get_writer();
        let n = self
            .supervisor
            .journal_manager
            .read()
            .expect("lock is poisoned")
            .journal_count();
        drop(keyspaces);
        n
    }""")
B("C14-rotate-drop-late", "C14", "C14:R-C14.3", KS,
  """        drop(journal_writer);

        self.supervisor.flush_manager.enqueue(Arc::new(FlushTask {
            keyspace: self.clone(),
        }));

        self.worker_messager.send(WorkerMessage::Flush).ok();
""",
  """        self.supervisor.flush_manager.enqueue(Arc::new(FlushTask {
            keyspace: self.clone(),
        }));

        self.worker_messager.send(WorkerMessage::Flush).ok();

        drop(journal_writer);
""")

# ======================================================================== equivalent refactors (all rules silent)
E("EQ-insert-explicit-match", KS,
  """        journal_writer
            .write_raw(self.id, &key, &value, lsm_tree::ValueType::Value, seqno)
            .inspect_err(|_| {
                self.is_poisoned.poison();
            })?;""",
  """        if let Err(e) = journal_writer.write_raw(self.id, &key, &value, lsm_tree::ValueType::Value, seqno) {
            self.is_poisoned.poison();
            return Err(e);
        }""")
E("EQ-insert-scope-instead-of-drop", KS,
  """        let (item_size, memtable_size) = self.tree.insert(key, value, seqno);

        self.supervisor.snapshot_tracker.publish(seqno);

        drop(journal_writer);
""",
  """        let (item_size, memtable_size) = {
            let journal_writer = journal_writer;
            let r = self.tree.insert(key, value, seqno);
            self.supervisor.snapshot_tracker.publish(seqno);
            let _keep = &journal_writer;
            r
        };
""")
E("EQ-poison-helper", KS,
  """        journal_writer
            .write_raw(self.id, &key, &[], lsm_tree::ValueType::Tombstone, seqno)
            .inspect_err(|_| {
                self.is_poisoned.poison();
            })?;""",
  """        journal_writer
            .write_raw(self.id, &key, &[], lsm_tree::ValueType::Tombstone, seqno)
            .inspect_err(|_| self.mark_failed())?;""", props=None)
EQUIV[-1]["edits"].append(dict(file=KS, old="""    fn check_write_halt(&self) {""", new="""    fn mark_failed(&self) {
        self.is_poisoned.poison();
    }

    fn check_write_halt(&self) {"""))
E("EQ-rename-locals-batch", BATCH,
  """        let batch_seqno = self.db.supervisor.seqno.next();""",
  """        let commit_seq = self.db.supervisor.seqno.next();
        let batch_seqno = commit_seq;""")
E("EQ-flip-id-check", KS,
  """        if self.tree.active_memtable().id() != memtable_id {
            return Ok(false);
        }
""",
  """        let same = memtable_id == self.tree.active_memtable().id();
        if !same {
            return Ok(false);
        }
""")


def seeded():
    """every stored seeded change (seeded/<id>/: patch.diff + meta.json) is replayed as a break mutant: the check of the
    property it breaks must report a violation"""
    import glob, json, os
    out = []
    root = os.path.join(os.path.dirname(os.path.dirname(os.path.abspath(__file__))), "seeded")
    for d in sorted(glob.glob(os.path.join(root, "*"))):
        mp, pp = os.path.join(d, "meta.json"), os.path.join(d, "patch.diff")
        if not (os.path.exists(mp) and os.path.exists(pp)):
            continue
        meta = json.load(open(mp))
        prop = meta.get("breaks_property") or meta.get("property")
        if meta.get("neutralised_at_head"):
            # a later repair of /repo took away what the change relied on: on today's tree it no longer breaks the property
            # (kept for the record; as an equivalence mutant the property's check must now stay silent on it)
            out.append({"id": "SEED-" + os.path.basename(d), "kind": "equiv", "props": [prop], "edits": [], "patch": pp})
            continue
        out.append({"id": "SEED-" + os.path.basename(d), "kind": "break", "props": [prop], "expect": prop + ":", "edits": [], "patch": pp})
    return out


REPAIR = []


def RP(id, prop, gone, edits):
    REPAIR.append({"id": id, "kind": "repair", "props": [prop], "gone": gone, "edits": [dict(file=f, old=o, new=n) for f, o, n in edits]})


def all_mutants():
    return BREAK + seeded() + EQUIV + REPAIR

# ======================================================================== C02
B("C02-apply-before-append", "C02", "C02:R-C02.1:keyspace::Keyspace::insert:append-before-apply", KS,
  """        let seqno = self.supervisor.seqno.next();

        journal_writer
            .write_raw(self.id, &key, &value, lsm_tree::ValueType::Value, seqno)
            .inspect_err(|_| {
                self.is_poisoned.poison();
            })?;

        if !self.config.manual_journal_persist {
            journal_writer
                .persist(crate::PersistMode::Buffer)
                .inspect_err(|e| {
                    log::error!("persist failed, which is a FATAL, and possibly hardware-related, failure: {e:?}");
                    self.is_poisoned.poison();
                })?;
        }

        let (item_size, memtable_size) = self.tree.insert(key, value, seqno);
""",
  """        let seqno = self.supervisor.seqno.next();

        let (item_size, memtable_size) = self.tree.insert(key.clone(), value.clone(), seqno);

        journal_writer
            .write_raw(self.id, &key, &value, lsm_tree::ValueType::Value, seqno)
            .inspect_err(|_| {
                self.is_poisoned.poison();
            })?;

        if !self.config.manual_journal_persist {
            journal_writer
                .persist(crate::PersistMode::Buffer)
                .inspect_err(|e| {
                    log::error!("persist failed, which is a FATAL, and possibly hardware-related, failure: {e:?}");
                    self.is_poisoned.poison();
                })?;
        }
""")
B("C02-remove-no-persist", "C02", "C02:R-C02.1:keyspace::Keyspace::remove:persist-between-append-and-apply", KS,
  """        if !self.config.manual_journal_persist {
            journal_writer
                .persist(crate::PersistMode::Buffer)
                .inspect_err(|e| {
                    log::error!("persist failed, which is a FATAL, and possibly hardware-related, failure: {e:?}");
                    self.is_poisoned.poison();
                })?;
        }

        let (item_size, memtable_size) = self.tree.remove(key, seqno);

        self.supervisor.snapshot_tracker.publish(seqno);

        drop(journal_writer);

        self.supervisor.write_buffer_size.allocate(item_size);
        self.maintenance(memtable_size);

        Ok(())
    }

    /// Removes an item from the keyspace, leaving behind a weak tombstone.""",
  """        let (item_size, memtable_size) = self.tree.remove(key, seqno);

        self.supervisor.snapshot_tracker.publish(seqno);

        drop(journal_writer);

        self.supervisor.write_buffer_size.allocate(item_size);
        self.maintenance(memtable_size);

        Ok(())
    }

    /// Removes an item from the keyspace, leaving behind a weak tombstone.""")
B("C02-persist-polarity", "C02", "C02:R-C02.1:keyspace::Keyspace::clear:persist-between-append-and-apply", KS,
  """        if !self.config.manual_journal_persist {
            journal_writer
                .persist(crate::PersistMode::Buffer)
                .map_err(|e| {""",
  """        if self.config.manual_journal_persist {
            journal_writer
                .persist(crate::PersistMode::Buffer)
                .map_err(|e| {""")
B("C02-batch-wiring-polarity", "C02", "C02:R-C02.2:db::Database::batch", DB,
  """        if !self.config.manual_journal_persist {
            batch = batch.durability(Some(PersistMode::Buffer));
        }""",
  """        if self.config.manual_journal_persist {
            batch = batch.durability(Some(PersistMode::Buffer));
        }""")
B("C02-tx-durability-dropped", "C02", "C02:R-C02.2:tx::write_tx::BaseTransaction::commit", "src/tx/write_tx.rs",
  """        let mut batch = OwnedWriteBatch::new(self.db).durability(self.durability);""",
  """        let mut batch = OwnedWriteBatch::new(self.db).durability(None);""")
B("C02-early-ack", "C02", "C02:R-C02.1:keyspace::Keyspace::remove_weak:apply-on-all-success-paths", KS,
  """        let (item_size, memtable_size) = self.tree.remove(key, seqno);

        self.supervisor.snapshot_tracker.publish(seqno);

        drop(journal_writer);

        self.supervisor.write_buffer_size.allocate(item_size);
        self.maintenance(memtable_size);

        Ok(())
    }
}""",
  """        if key.is_empty() {
            return Ok(());
        }

        let (item_size, memtable_size) = self.tree.remove(key, seqno);

        self.supervisor.snapshot_tracker.publish(seqno);

        drop(journal_writer);

        self.supervisor.write_buffer_size.allocate(item_size);
        self.maintenance(memtable_size);

        Ok(())
    }
}""")
B("C02-dirty-flag-cleared-early", "C02", "C02:R-C02.3:journal::writer::Writer::persist", WRITER,
  """        if self.is_buffer_dirty {
            self.file.flush().inspect_err(|e| {""",
  """        if self.is_buffer_dirty {
            self.is_buffer_dirty = false;
            self.file.flush().inspect_err(|e| {""")
B("C02-write-clear-not-dirty", "C02", "C02:R-C02.3:journal::writer::Writer::write_clear", WRITER,
  """        seqno: SeqNo,
    ) -> crate::Result<usize> {
        self.is_buffer_dirty = true;

        let mut hasher = xxhash_rust::xxh3::Xxh3::default();
        let mut byte_count = 0;

        self.buf.clear();
        byte_count += self.write_start(1, seqno)?;
        self.buf.clear();

        Entry::Clear { keyspace_id }""",
  """        seqno: SeqNo,
    ) -> crate::Result<usize> {
        let mut hasher = xxhash_rust::xxh3::Xxh3::default();
        let mut byte_count = 0;

        self.buf.clear();
        byte_count += self.write_start(1, seqno)?;
        self.buf.clear();

        Entry::Clear { keyspace_id }""")
B("C02-journals-descending", "C02", "C02:R-C02.4:journal::recovery::recover_journals", "src/journal/recovery.rs",
  """    journal_fragments.sort_by_key(|(a, _)| *a);""",
  """    journal_fragments.sort_by_key(|(a, _)| std::cmp::Reverse(*a));""")
B("C02-sealed-after-keyspaces-swapped", "C02", "C02:R-C02.4:db::Database::recover", DB,
  """        // Recover keyspaces
        recover_keyspaces(&db, &meta_keyspace)?;

        // Recover sealed memtables by walking through old journals
        recover_sealed_memtables(
            &db,
            &sealed_journals
                .into_iter()
                .map(|(_, x)| x)
                .collect::<Vec<_>>(),
        )?;
""",
  """        // Recover sealed memtables by walking through old journals
        recover_sealed_memtables(
            &db,
            &sealed_journals
                .into_iter()
                .map(|(_, x)| x)
                .collect::<Vec<_>>(),
        )?;

        // Recover keyspaces
        recover_keyspaces(&db, &meta_keyspace)?;
""")
B("C02-sealed-reversed", "C02", "C02:R-C02.4:db::Database::recover:sealed-list", DB,
  """            &sealed_journals
                .into_iter()
                .map(|(_, x)| x)
                .collect::<Vec<_>>(),""",
  """            &sealed_journals
                .into_iter()
                .rev()
                .map(|(_, x)| x)
                .collect::<Vec<_>>(),""")
B("C02-foreign-journal-delete", "C02", "C02:R-C02.5:recovery::recover_sealed_memtables", REC,
  """        log::debug!("Requeued sealed journal at {}", journal_path.display());""",
  """        if journal_size == 0 {
            std::fs::remove_file(journal_path)?;
        }
        log::debug!("Requeued sealed journal at {}", journal_path.display());""")
E("EQ-persist-helper-fn", KS,
  """        if !self.config.manual_journal_persist {
            journal_writer
                .persist(crate::PersistMode::Buffer)
                .inspect_err(|e| {
                    log::error!("persist failed, which is a FATAL, and possibly hardware-related, failure: {e:?}");
                    self.is_poisoned.poison();
                })?;
        }

        let (item_size, memtable_size) = self.tree.insert(key, value, seqno);""",
  """        let auto_persist = !self.config.manual_journal_persist;
        if auto_persist {
            let res = journal_writer.persist(crate::PersistMode::Buffer);
            if let Err(e) = res {
                log::error!("persist failed, which is a FATAL, and possibly hardware-related, failure: {e:?}");
                self.is_poisoned.poison();
                return Err(e.into());
            }
        }

        let (item_size, memtable_size) = self.tree.insert(key, value, seqno);""")

# ======================================================================== C09
B("C09-syncdata-noop", "C09", "C09:R-C09.1:journal::writer::Writer::persist:arm-SyncData", WRITER,
  """            PersistMode::SyncData => self.file.get_mut().sync_data().inspect_err(|e| {
                log::error!(
                    "Failed to fsyncdata journal file at {}: {e:?}",
                    self.path.display(),
                );
            }),
            PersistMode::Buffer => Ok(()),""",
  """            PersistMode::SyncData | PersistMode::Buffer => Ok(()),""")
B("C09-sync-before-flush", "C09", "C09:R-C09.1:journal::writer::Writer::persist:flush-before-sync", WRITER,
  """        if self.is_buffer_dirty {
            self.file.flush().inspect_err(|e| {
                log::error!(
                    "Failed to flush journal IO buffers at {}: {e:?}",
                    self.path.display(),
                );
            })?;
            self.is_buffer_dirty = false;
        }

        match mode {""",
  """        if mode == PersistMode::SyncAll {
            self.file.get_mut().sync_all()?;
        }

        if self.is_buffer_dirty {
            self.file.flush().inspect_err(|e| {
                log::error!(
                    "Failed to flush journal IO buffers at {}: {e:?}",
                    self.path.display(),
                );
            })?;
            self.is_buffer_dirty = false;
        }

        match mode {""")
B("C09-sync-error-swallowed", "C09", "C09:R-C09.2:journal::writer::Writer::persist:result-of-sync_all", WRITER,
  """            PersistMode::SyncAll => self.file.get_mut().sync_all().inspect_err(|e| {
                log::error!(
                    "Failed to fsync journal file at {}: {e:?}",
                    self.path.display(),
                );
            }),""",
  """            PersistMode::SyncAll => {
                self.file.get_mut().sync_all().ok();
                Ok(())
            }""")
B("C09-db-persist-downgrades", "C09", "C09:R-C09.3:db::Database::persist", DB,
  """        if let Err(e) = self.supervisor.journal.persist(mode) {""",
  """        let mode = if mode == PersistMode::SyncAll { PersistMode::SyncData } else { mode };
        if let Err(e) = self.supervisor.journal.persist(mode) {""")
B("C09-batch-ignores-durability", "C09", "C09:R-C09.3:batch::WriteBatch::commit", BATCH,
  """        if let Some(mode) = self.durability {
            if let Err(e) = journal_writer.persist(mode) {""",
  """        if let Some(_mode) = self.durability {
            if let Err(e) = journal_writer.persist(PersistMode::Buffer) {""")
B("C09-rotate-no-sync", "C09", "C09:R-C09.4:journal::writer::Writer::rotate:sync-old", WRITER,
  """    pub fn rotate(&mut self) -> crate::Result<(PathBuf, PathBuf)> {
        self.persist(PersistMode::SyncAll)?;""",
  """    pub fn rotate(&mut self) -> crate::Result<(PathBuf, PathBuf)> {
        self.persist(PersistMode::Buffer)?;""")
B("C09-rotate-no-dirsync", "C09", "C09:R-C09.4:journal::writer::Writer::rotate:directory-fsync", WRITER,
  """        // IMPORTANT: fsync folder on Unix
        fsync_directory(&folder)?;

        Ok((prev_path, new_path))""",
  """        Ok((prev_path, new_path))""")
B("C09-drop-buffer-only", "C09", "C09:R-C09.5", "src/journal/mod.rs",
  """        match self.persist(PersistMode::SyncAll) {""",
  """        match self.persist(PersistMode::Buffer) {""")
B("C09-truncate-no-sync", "C09", "C09:R-C09.4:journal::batch_reader::JournalBatchReader::truncate_to", "src/journal/batch_reader.rs",
  """        file.set_len(last_valid_pos)?;
        file.sync_all()?;""",
  """        file.set_len(last_valid_pos)?;""")
B("C09-fsync-dir-noop", "C09", "C09:R-C09.6", "src/file.rs",
  """    file.sync_all().inspect_err(|e| {
        log::error!("Failed to fsync directory at {}: {e:?}", path.display());
    })
}

#[cfg(target_os = "windows")]""",
  """    drop(file);
    Ok(())
}

#[cfg(target_os = "windows")]""")
E("EQ-persist-match-reordered", WRITER,
  """            PersistMode::Buffer => Ok(()),
        }
    }""",
  """            PersistMode::Buffer => {
                let r: std::io::Result<()> = Ok(());
                r
            }
        }
    }""")

# ======================================================================== C05
B("C05-range-seqno-max", "C05", "C05:R-C05.2:keyspace::Keyspace::range", KS,
  "let iter = self.tree.range(range, nonce.instant, None);", "let iter = self.tree.range(range, SeqNo::MAX, None);")
B("C05-prefix-seqno-max", "C05", "C05:R-C05.2:keyspace::Keyspace::prefix", KS,
  "let iter = self.tree.prefix(prefix, nonce.instant, None);", "let iter = self.tree.prefix(prefix, SeqNo::MAX, None);")
B("C05-double-close", "C05", "C05:R-C05.1:tx::optimistic::oracle::Oracle::with_commit:calls-close_raw", "src/tx/optimistic/oracle.rs",
  """        // TODO: This can be expensive and should probably be done in a background worker, or a after a memtable rotation""",
  """        self.snapshot_tracker.close_raw(instant);

        // TODO: This can be expensive and should probably be done in a background worker, or a after a memtable rotation""")
B("C05-open-lock-dropped", "C05", "C05:R-C05.4:snapshot_tracker::SnapshotTracker::open", TRACKER,
  """    pub fn open(&self) -> SnapshotNonce {
        #[expect(clippy::expect_used)]
        let _lock = self.gc_lock.read().expect("lock is poisoned");""",
  """    pub fn open(&self) -> SnapshotNonce {
        #[expect(clippy::expect_used)]
        drop(self.gc_lock.read().expect("lock is poisoned"));""")
B("C05-gc-shared-lock", "C05", "C05:R-C05.4:snapshot_tracker::SnapshotTracker::gc", TRACKER,
  """    pub(crate) fn gc(&self) {
        #[expect(clippy::expect_used)]
        let _lock = self.gc_lock.write().expect("lock is poisoned");""",
  """    pub(crate) fn gc(&self) {
        #[expect(clippy::expect_used)]
        let _lock = self.gc_lock.read().expect("lock is poisoned");""")
B("C05-flush-threshold-visible-seqno", "C05", "C05:R-C05.5:flush::worker::run", "src/flush/worker.rs",
  "let gc_watermark = snapshot_tracker.get_seqno_safe_to_gc();", "let gc_watermark = snapshot_tracker.get();")
B("C05-pullup-unconditional", "C05", "C05:R-C05.5:snapshot_tracker::SnapshotTracker::pullup", TRACKER,
  """        if self.data.is_empty() {
            self.lowest_freed_instant.store(
                self.seqno.get().saturating_sub(1),
                std::sync::atomic::Ordering::Release,
            );
        }""",
  """        let _ = self.data.is_empty();
        self.lowest_freed_instant.store(
            self.seqno.get().saturating_sub(1),
            std::sync::atomic::Ordering::Release,
        );""")
B("C05-snapshot-get-latest", "C05", "C05:R-C05.2:<snapshot::Snapshot as readable::Readable>::get", "src/snapshot.rs",
  """            .get(key, self.nonce.instant)""", """            .get(key, SeqNo::MAX)""")
B("C05-iter-other-registration", "C05", "C05:R-C05.2:keyspace::Keyspace::iter", KS,
  """        let nonce = self.supervisor.snapshot_tracker.open();
        let iter = self.tree.iter(nonce.instant, None);
        crate::iter::Iter::new(nonce, iter)""",
  """        let instant = self.supervisor.snapshot_tracker.open().instant;
        let iter = self.tree.iter(instant, None);
        let nonce = self.supervisor.snapshot_tracker.open();
        crate::iter::Iter::new(nonce, iter)""")
B("C05-clone-unregistered", "C05", "C05:R-C05.1", "src/snapshot_nonce.rs",
  """    fn clone(&self) -> Self {
        self.tracker.clone_snapshot(self)
    }""",
  """    fn clone(&self) -> Self {
        Self::new(self.instant, self.tracker.clone())
    }""")
B("C05-tx-read-latest", "C05", "C05:R-C05.2:<tx::write_tx::BaseTransaction as readable::Readable>::contains_key", "src/tx/write_tx.rs",
  "let contains = keyspace.tree.contains_key(key, self.nonce.instant)?;", "let contains = keyspace.tree.contains_key(key, SeqNo::MAX)?;")
B("C05-major-compact-threshold", "C05", "C05:R-C05.5:keyspace::Keyspace::major_compact", KS,
  """            64_000_000,
            self.supervisor.snapshot_tracker.get_seqno_safe_to_gc(),""",
  """            64_000_000,
            self.supervisor.seqno.get(),""")
E("EQ-iter-instant-local", KS,
  """        let nonce = self.supervisor.snapshot_tracker.open();
        let iter = self.tree.iter(nonce.instant, None);
        crate::iter::Iter::new(nonce, iter)""",
  """        let tracker = &self.supervisor.snapshot_tracker;
        let nonce = tracker.open();
        let at = nonce.instant;
        let iter = self.tree.iter(at, None);
        crate::iter::Iter::new(nonce, iter)""")

# ======================================================================== C07
OWT = "src/tx/optimistic/write_tx.rs"
ORACLE = "src/tx/optimistic/oracle.rs"
B("C07-size_of-untracked", "C07", "C07:R-C07.1:<tx::optimistic::write_tx::WriteTransaction as readable::Readable>::size_of", OWT,
  """        let size = self.inner.size_of(keyspace, key.as_ref())?;

        self.cm.mark_read(keyspace.id, key.as_ref().into());

        Ok(size)""",
  """        self.inner.size_of(keyspace, key)""")
B("C07-first-untracked", "C07", "C07:R-C07.1:<tx::optimistic::write_tx::WriteTransaction as readable::Readable>::first_key_value", OWT,
  """        self.iter(&keyspace).next()""", """        self.inner.first_key_value(keyspace)""")
B("C07-get-tracks-only-hits", "C07", "C07:R-C07.1:<tx::optimistic::write_tx::WriteTransaction as readable::Readable>::get", OWT,
  """        let res = self.inner.get(keyspace, key.as_ref())?;

        self.cm.mark_read(keyspace.id, key.as_ref().into());

        Ok(res)""",
  """        let res = self.inner.get(keyspace, key.as_ref())?;

        if res.is_some() {
            self.cm.mark_read(keyspace.id, key.as_ref().into());
        }

        Ok(res)""")
B("C07-contains-wrong-key", "C07", "C07:R-C07.1:<tx::optimistic::write_tx::WriteTransaction as readable::Readable>::contains_key:recorded-operands", OWT,
  """        let contains = self.inner.contains_key(keyspace, key.as_ref())?;

        self.cm.mark_read(keyspace.id, key.as_ref().into());""",
  """        let contains = self.inner.contains_key(keyspace, key.as_ref())?;

        self.cm.mark_read(keyspace.id, Slice::from("k"));""")
B("C07-remove-unrecorded", "C07", "C07:R-C07.2:tx::optimistic::write_tx::WriteTransaction::remove", OWT,
  """        self.inner.remove(keyspace, key.clone());
        self.cm.mark_conflict(keyspace.id, key);""",
  """        self.inner.remove(keyspace, key);""")
B("C07-window-plus-two", "C07", "C07:R-C07.3:tx::optimistic::oracle::Oracle::with_commit:scan-window", ORACLE,
  ".range((instant + 1)..)", ".range((instant + 2)..)")
B("C07-window-from-instant", "C07", "C07:R-C07.3:tx::optimistic::oracle::Oracle::with_commit:scan-window", ORACLE,
  ".range((instant + 1)..)", ".range((instant + 1)..=u64::MAX - 1)")
B("C07-commit-despite-conflict", "C07", "C07:R-C07.3:tx::optimistic::oracle::Oracle::with_commit:commit-only-if-not-conflicted", ORACLE,
  """        if conflicted {
            return Ok(CommitOutcome::Conflicted);
        }

        if let Err(e) = f() {
            return Ok(CommitOutcome::Aborted(e));
        }""",
  """        if let Err(e) = f() {
            return Ok(CommitOutcome::Aborted(e));
        }

        if conflicted {
            return Ok(CommitOutcome::Conflicted);
        }""")
B("C07-register-stale-ts", "C07", "C07:R-C07.3:tx::optimistic::oracle::Oracle::with_commit:register-after-successful-commit", ORACLE,
  """        if let Err(e) = f() {
            return Ok(CommitOutcome::Aborted(e));
        }

        committed_txns.insert(self.snapshot_tracker.get(), conflict_checker);""",
  """        let ts = self.snapshot_tracker.get();

        if let Err(e) = f() {
            return Ok(CommitOutcome::Aborted(e));
        }

        committed_txns.insert(ts, conflict_checker);""")
B("C07-snapshot-outside-lock", "C07", "C07:R-C07.4", "src/tx/optimistic/mod.rs",
  """            let _guard = self.oracle.write_serialize_lock()?;

            self.inner.supervisor.snapshot_tracker.open()""",
  """            drop(self.oracle.write_serialize_lock()?);

            self.inner.supervisor.snapshot_tracker.open()""")
B("C07-helper-bypasses-oracle", "C07", "C07:R-C07.5:tx::optimistic::keyspace::OptimisticTxKeyspace::remove", "src/tx/optimistic/keyspace.rs",
  """        let mut tx = self.db.write_tx()?;
        tx.remove(self.inner(), key);

        #[expect(
            clippy::expect_used,
            clippy::missing_panics_doc,
            reason = "blind remove should not conflict ever"
        )]
        tx.commit()?.expect("blind remove should not conflict ever");

        Ok(())""",
  """        self.inner.remove(key)""")
B("C07-conflict-arm-hole", "C07", "C07:R-C07.6:tx::optimistic::conflict_manager::ConflictManager::has_conflict:arm-All", "src/tx/optimistic/conflict_manager.rs",
  """                        Read::All => {
                            if !other_conflict_keys.is_empty() {
                                return true;
                            }
                        }""",
  """                        Read::All => {}""")
B("C07-conflict-self-vs-self", "C07", "C07:R-C07.6:tx::optimistic::conflict_manager::ConflictManager::has_conflict:own-reads", "src/tx/optimistic/conflict_manager.rs",
  """        let conflict_keys_lock = other.conflict_keys.lock().expect("lock is poisoned");""",
  """        let _ = other;
        let conflict_keys_lock = self.conflict_keys.lock().expect("lock is poisoned");""")
E("EQ-ssi-get-mark-first", OWT,
  """        let res = self.inner.get(keyspace, key.as_ref())?;

        self.cm.mark_read(keyspace.id, key.as_ref().into());

        Ok(res)""",
  """        let k: Slice = key.as_ref().into();
        self.cm.mark_read(keyspace.id, k);

        self.inner.get(keyspace, key.as_ref())""")

# ======================================================================== C06
B("C06-publish-inside-loop", "C06", "C06:R-C06.1:batch::WriteBatch::commit:publish-once", BATCH,
  """            batch_size += item_size;
""",
  """            batch_size += item_size;
            self.db.supervisor.snapshot_tracker.publish(batch_seqno);
""")
B("C06-seqno-per-item", "C06", "C06:R-C06.1:batch::WriteBatch::commit", BATCH,
  """                ValueType::Tombstone => item.keyspace.tree.remove(item.key, batch_seqno),""",
  """                ValueType::Tombstone => item.keyspace.tree.remove(item.key, self.db.supervisor.seqno.next()),""")
B("C06-publish-without-plus-one", "C06", "C06:R-C06.2", TRACKER,
  "self.seqno.fetch_max(batch_seqno + 1);", "self.seqno.fetch_max(batch_seqno);")
B("C06-publish-wrong-seqno", "C06", "C06:R-C06.1:keyspace::Keyspace::insert:publish", KS,
  """        let (item_size, memtable_size) = self.tree.insert(key, value, seqno);

        self.supervisor.snapshot_tracker.publish(seqno);""",
  """        let (item_size, memtable_size) = self.tree.insert(key, value, seqno);

        self.supervisor.snapshot_tracker.publish(self.supervisor.seqno.get());""")
B("C06-tree-private-visible-counter", "C06", "C06:R-C06.4:keyspace::Keyspace::create_new", KS,
  """            db.supervisor.seqno.clone(),
            db.supervisor.snapshot_tracker.get_ref(),
        )
        .use_descriptor_table(db.config.descriptor_table.clone())
        .use_cache(db.config.cache.clone());

        let base_config = apply_to_base_config(base_config, &config);
        let tree = base_config.open()?;""",
  """            db.supervisor.seqno.clone(),
            lsm_tree::SequenceNumberCounter::default(),
        )
        .use_descriptor_table(db.config.descriptor_table.clone())
        .use_cache(db.config.cache.clone());

        let base_config = apply_to_base_config(base_config, &config);
        let tree = base_config.open()?;""")
B("C06-tracker-own-counter", "C06", "C06:R-C06.4:db::Database::create_new", DB,
  """            snapshot_tracker: SnapshotTracker::new(visible_seqno),
            journal,""",
  """            snapshot_tracker: SnapshotTracker::new(SequenceNumberCounter::default()),
            journal,""")
B("C06-open-reads-generator", "C06", "C06:R-C06.3", TRACKER,
  """    pub fn new(seqno: SequenceNumberCounter) -> Self {
        Self(Arc::new(SnapshotTrackerInner {
            data: DashMap::default(),
            freed_count: AtomicU64::default(),
            lowest_freed_instant: AtomicU64::default(),
            seqno,""",
  """    pub fn new(seqno: SequenceNumberCounter) -> Self {
        let _ = seqno;
        Self(Arc::new(SnapshotTrackerInner {
            data: DashMap::default(),
            freed_count: AtomicU64::default(),
            lowest_freed_instant: AtomicU64::default(),
            seqno: SequenceNumberCounter::default(),""")
B("C06-clear-journal-other-seqno", "C06", "C06:R-C06.1:keyspace::Keyspace::clear:write_clear", KS,
  """            .write_clear(self.id, seqno)""", """            .write_clear(self.id, seqno + 1)""")

# ======================================================================== C03
BRD = "src/journal/batch_reader.rs"
B("C03-emit-when-counter-hits-zero", "C03", "C03:R-C03.2", BRD,
  """                    self.batch_counter -= 1;

                    self.items.push(ReadBatchItem {
                        keyspace_id,
                        key,
                        value,
                        value_type,
                    });""",
  """                    self.batch_counter -= 1;

                    self.items.push(ReadBatchItem {
                        keyspace_id,
                        key,
                        value,
                        value_type,
                    });

                    if self.batch_counter == 0 {
                        let items = std::mem::take(&mut self.items);
                        let cleared_keyspaces = std::mem::take(&mut self.cleared_keyspaces);
                        return Some(Ok(Batch {
                            seqno: self.batch_seqno,
                            items,
                            cleared_keyspaces,
                        }));
                    }""")
B("C03-no-checksum-compare", "C03", "C03:R-C03.2:<journal::batch_reader::JournalBatchReader as std::iter::Iterator>::next:emit-requires-checksum-match", BRD,
  """                    if got_checksum != expected_checksum {""", """                    if got_checksum != expected_checksum && expected_checksum == 0 {""")
B("C03-checksum-polarity", "C03", "C03:R-C03.2:<journal::batch_reader::JournalBatchReader as std::iter::Iterator>::next:emit-requires-checksum-match", BRD,
  """                    if got_checksum != expected_checksum {""", """                    if got_checksum == expected_checksum {""")
B("C03-valid-pos-at-start", "C03", "C03:R-C03.3:<journal::batch_reader::JournalBatchReader as std::iter::Iterator>::next:last_valid_pos", BRD,
  """                    self.is_in_batch = true;
                    self.batch_counter = item_count;""",
  """                    self.is_in_batch = true;
                    self.last_valid_pos = journal_file_pos;
                    self.batch_counter = item_count;""")
B("C03-no-truncate-on-nested-start", "C03", "C03:R-C03.3:<journal::batch_reader::JournalBatchReader as std::iter::Iterator>::next:none", BRD,
  """                        log::debug!("Invalid batch: found batch start inside batch");

                        // Discard batch
                        fail_iter!(self.truncate_to(self.last_valid_pos));

                        return None;""",
  """                        log::debug!("Invalid batch: found batch start inside batch");

                        return None;""")
B("C03-on-close-no-truncate", "C03", "C03:R-C03.3:journal::batch_reader::JournalBatchReader::on_close", BRD,
  """            // Discard batch
            self.truncate_to(self.last_valid_pos)?;
        }

        Ok(())""",
  """        }

        Ok(())""")
B("C03-end-in-loop", "C03", "C03:R-C03.1:journal::writer::Writer::write_batch", WRITER,
  """            hasher.update(&self.buf);
            byte_count += self.buf.len();

            self.buf.clear();
        }

        let checksum = hasher.finish();
        byte_count += self.write_end(checksum)?;""",
  """            hasher.update(&self.buf);
            byte_count += self.buf.len();

            self.buf.clear();
            byte_count += self.write_end(hasher.finish())?;
            self.buf.clear();
        }
""")
B("C03-count-off", "C03", "C03:R-C03.1:journal::writer::Writer::write_raw:start-carries", WRITER,
  """        self.buf.clear();
        byte_count += self.write_start(1, seqno)?;
        self.buf.clear();

        serialize_marker_item(""",
  """        self.buf.clear();
        byte_count += self.write_start(2, seqno)?;
        self.buf.clear();

        serialize_marker_item(""")
B2("C03-tx-batch-per-keyspace", "C03", "C03:R-C03.5:tx::write_tx::BaseTransaction::commit", [
    ("src/tx/write_tx.rs",
     """        let mut batch = OwnedWriteBatch::new(self.db).durability(self.durability);

        for (keyspace, memtable) in self.memtables {
            let mut prev_key: Option<UserKey> = None;
""",
     """        let db = self.db;

        for (keyspace, memtable) in self.memtables {
            let mut batch = OwnedWriteBatch::new(db.clone()).durability(self.durability);
            let mut prev_key: Option<UserKey> = None;
"""),
    ("src/tx/write_tx.rs",
     """                prev_key = Some(item.key.user_key.clone());
            }
        }

        batch.commit()?;

        Ok(())""",
     """                prev_key = Some(item.key.user_key.clone());
            }

            batch.commit()?;
        }

        Ok(())""")])
B("C03-skip-hash-of-clear", "C03", "C03:R-C03.2:<journal::batch_reader::JournalBatchReader as std::iter::Iterator>::next:accepted-items-are-hashed", BRD,
  """                    fail_iter!(entry.encode_into(&mut bytes));

                    self.checksum_builder.update(&bytes);
""",
  """                    fail_iter!(entry.encode_into(&mut bytes));
""")

# ======================================================================== C08
TXW = "src/tx/write_tx.rs"
B("C08-range-no-overlay", "C08", "C08:R-C08.1:<tx::write_tx::BaseTransaction as readable::Readable>::range", TXW,
  """        let iter = keyspace.tree.range(
            range,
            self.nonce.instant,
            self.memtables
                .get(keyspace)
                .cloned()
                .map(|mt| (mt, self.seqno)),
        );""",
  """        let iter = keyspace.tree.range(range, self.nonce.instant, None);""")
B("C08-get-ignores-own-tombstone", "C08", "C08:R-C08.1:<tx::write_tx::BaseTransaction as readable::Readable>::get:own-write-shadows", TXW,
  """            if let Some(item) = memtable.get(key, SeqNo::MAX) {
                return Ok(ignore_tombstone_value(item).map(|x| x.value));
            }""",
  """            if let Some(item) = memtable.get(key, SeqNo::MAX) {
                if let Some(v) = ignore_tombstone_value(item) {
                    return Ok(Some(v.value));
                }
            }""")
B("C08-seqno-low", "C08", "C08:R-C08.2:tx::write_tx::BaseTransaction::new", TXW,
  "seqno: 0x8000_0000_0000_0000,", "seqno: 0x0000_0000_8000_0000,")
B("C08-remove-no-increment", "C08", "C08:R-C08.2:tx::write_tx::BaseTransaction::remove:one-increment", TXW,
  """            .insert(lsm_tree::InternalValue::new_tombstone(key, self.seqno));

        self.seqno += 1;""",
  """            .insert(lsm_tree::InternalValue::new_tombstone(key, self.seqno));""")
B("C08-insert-writes-through", "C08", "C08:R-C08.3:tx::write_tx::BaseTransaction::remove_weak", TXW,
  """            .insert(lsm_tree::InternalValue::new_weak_tombstone(key, self.seqno));

        self.seqno += 1;""",
  """            .insert(lsm_tree::InternalValue::new_weak_tombstone(key, self.seqno));
        let _ = keyspace.tree.remove_weak("", 0);

        self.seqno += 1;""")
B("C08-commit-no-dedupe", "C08", "C08:R-C08.4:tx::write_tx::BaseTransaction::commit:dedupe", TXW,
  """                if let Some(prev_key) = &prev_key {
                    if item.key.user_key == prev_key {
                        continue;
                    }
                }
""",
  """                if let Some(prev_key) = &prev_key {
                    if item.key.user_key == prev_key && item.key.user_key.is_empty() {
                        continue;
                    }
                }
""")
B("C08-snapshot-before-mutex", "C08", "C08:R-C08.5:tx::single_writer::TxDatabase::write_tx:lock-before-snapshot", "src/tx/single_writer/mod.rs",
  """        let guard = self.single_writer_lock.lock().expect("poisoned tx lock");

        let mut write_tx = WriteTransaction::new(
            self.clone(),
            self.inner.supervisor.snapshot_tracker.open(),
            guard,
        );""",
  """        let nonce = self.inner.supervisor.snapshot_tracker.open();
        let guard = self.single_writer_lock.lock().expect("poisoned tx lock");

        let mut write_tx = WriteTransaction::new(self.clone(), nonce, guard);""")
B("C08-guard-dropped-before-commit", "C08", "C08:R-C08.5:tx::single_writer::write_tx::WriteTransaction::<'tx>::commit", "src/tx/single_writer/write_tx.rs",
  """    pub fn commit(self) -> crate::Result<()> {
        self.inner.commit()
    }""",
  """    pub fn commit(self) -> crate::Result<()> {
        drop(self._guard);
        self.inner.commit()
    }""")
B("C08-update_fetch-returns-prev", "C08", "C08:R-C08.6:tx::write_tx::BaseTransaction::update_fetch", TXW,
  """        } else if prev.is_some() {
            self.remove(keyspace, key);
        }

        Ok(updated)""",
  """        } else if prev.is_some() {
            self.remove(keyspace, key);
        }

        Ok(prev)""")
B("C08-sw-helper-direct", "C08", "C08:R-C08.5:tx::single_writer::keyspace::SingleWriterTxKeyspace::insert", "src/tx/single_writer/keyspace.rs",
  """        let mut tx = self.db.write_tx();
        tx.insert(self, key, value);
        tx.commit()?;
        Ok(())""",
  """        self.inner.insert(key, value)""")

# ======================================================================== C10
JMAN = "src/journal/manager.rs"
WP = "src/worker_pool.rs"
B("C10-lagging-check-flipped", "C10", "C10:R-C10.1:journal::manager::JournalManager::maintenance:lagging", JMAN,
  """                    if keyspace_seqno < item.lsn {
                        log::trace!(
                            "Keyspace {:?} not flushed enough to evict journal",""",
  """                    if keyspace_seqno > item.lsn {
                        log::trace!(
                            "Keyspace {:?} not flushed enough to evict journal",""")
B("C10-none-persisted-skipped", "C10", "C10:R-C10.1:journal::manager::JournalManager::maintenance", JMAN,
  """                    let Some(keyspace_seqno) = item.keyspace.tree.get_highest_persisted_seqno()
                    else {
                        return Ok(());
                    };""",
  """                    let Some(keyspace_seqno) = item.keyspace.tree.get_highest_persisted_seqno()
                    else {
                        continue;
                    };""")
B("C10-remove-newest", "C10", "C10:R-C10.2:journal::manager::JournalManager::maintenance", JMAN,
  """            self.items.remove(0);""", """            self.items.pop();""")
B("C10-seqno-map-after-rotate", "C10", "C10:R-C10.3:worker_pool::worker_tick", WP,
  """                    let seqno_map = {
                        #[expect(clippy::expect_used)]
                        let keyspaces = ctx.supervisor.keyspaces.write().expect("lock is poisoned");

                        ctx.supervisor.build_seqno_map(&keyspaces)
                    };

                    journal_manager.rotate_journal(&mut journal_writer, seqno_map)?;""",
  """                    journal_manager.rotate_journal(&mut journal_writer, Vec::new())?;
                    let _seqno_map = {
                        #[expect(clippy::expect_used)]
                        let keyspaces = ctx.supervisor.keyspaces.write().expect("lock is poisoned");

                        ctx.supervisor.build_seqno_map(&keyspaces)
                    };""")
B("C10-watermark-from-persisted", "C10", "C10:R-C10.3:supervisor::Supervisor::build_seqno_map", "src/supervisor.rs",
  "if let Some(lsn) = keyspace.tree.get_highest_memtable_seqno() {", "if let Some(lsn) = keyspace.tree.get_highest_persisted_seqno() {")
B("C10-item-stores-new-path", "C10", "C10:R-C10.3:journal::manager::JournalManager::rotate_journal", JMAN,
  "let (sealed_path, _) = journal_writer.rotate()?;", "let (_, sealed_path) = journal_writer.rotate()?;")
B("C10-no-maintenance-after-flush", "C10", "C10:R-C10.5", WP,
  """            ctx.supervisor
                .journal_manager
                .write()
                .expect("lock is poisoned")
                .maintenance()?;
        }
        WorkerMessage::Compact(keyspace) => {""",
  """        }
        WorkerMessage::Compact(keyspace) => {""")
B("C10-recovery-watermark-first-seqno", "C10", "C10:R-C10.4:recovery::recover_sealed_memtables:watermark-is-running-max", REC,
  """                watermarks
                    .entry(item.keyspace_id)
                    .and_modify(|prev| {
                        prev.lsn = prev.lsn.max(batch.seqno);
                    })""",
  """                watermarks
                    .entry(item.keyspace_id)
                    .and_modify(|prev| {
                        prev.lsn = prev.lsn.min(batch.seqno);
                    })""")
B("C10-deleted-check-inverted", "C10", "C10:R-C10.1:journal::manager::JournalManager::maintenance", JMAN,
  """                if !item
                    .keyspace
                    .is_deleted
                    .load(std::sync::atomic::Ordering::Acquire)
                {""",
  """                if item
                    .keyspace
                    .is_deleted
                    .load(std::sync::atomic::Ordering::Acquire)
                {""")

# ======================================================================== C11
B("C11-no-plus-one", "C11", "C11:R-C11.1:db::Database::recover:fetch_max", DB,
  """                    let maybe_next_seqno = keyspace
                        .tree
                        .get_highest_seqno()
                        .map(|x| x + 1)
                        .unwrap_or_default();""",
  """                    let maybe_next_seqno = keyspace
                        .tree
                        .get_highest_seqno()
                        .unwrap_or_default();""")
B("C11-skip-empty-memtables", "C11", "C11:R-C11.1:db::Database::recover:every-keyspace-considered", DB,
  """                    db.supervisor.seqno.fetch_max(maybe_next_seqno);
                    log::debug!("Database seqno is now {}", db.supervisor.seqno.get());""",
  """                    if size > 0 {
                        db.supervisor.seqno.fetch_max(maybe_next_seqno);
                    }
                    log::debug!("Database seqno is now {}", db.supervisor.seqno.get());""")
B("C11-set-before-replay", "C11", "C11:R-C11.3:db::Database::recover:restored-after-replay", DB,
  """        // Recover keyspaces
        recover_keyspaces(&db, &meta_keyspace)?;
""",
  """        // Recover keyspaces
        recover_keyspaces(&db, &meta_keyspace)?;
        let restored_seqno = db.supervisor.seqno.get();
""", )
BREAK[-1]["edits"].append(dict(file=DB, old="""        db.supervisor
            .snapshot_tracker
            .set(db.supervisor.seqno.get());""", new="""        db.supervisor.snapshot_tracker.set(restored_seqno);"""))
B("C11-set-is-store", "C11", "C11:R-C11.3:snapshot_tracker::SnapshotTracker::set", TRACKER,
  """    pub fn set(&self, value: SeqNo) {
        self.seqno.fetch_max(value);
    }""",
  """    pub fn set(&self, value: SeqNo) {
        self.seqno.set(value);
    }""")
B("C11-sealed-no-restore", "C11", "C11:R-C11.2", REC,
  """                db.supervisor.seqno.fetch_max(maybe_next_seqno);

                log::debug!("Database seqno is now {}", db.supervisor.seqno.get());""",
  """                let _ = maybe_next_seqno;

                log::debug!("Database seqno is now {}", db.supervisor.seqno.get());""")
B("C11-meta-remove-no-publish-plus1", "C11", "C11:R-C11.4", "src/meta_keyspace.rs",
  "self.visible_seqno.fetch_max(seqno + 1);", "self.visible_seqno.fetch_max(seqno);")
B("C11-workers-before-restore", "C11", "C11:R-C11.3:db::Database::recover:restored-before", DB,
  """        db.supervisor
            .snapshot_tracker
            .set(db.supervisor.seqno.get());

        db.supervisor.snapshot_tracker.gc();
""",
  """        db.supervisor.snapshot_tracker.gc();
""")
BREAK[-1]["edits"].append(dict(file=DB, old="""        log::trace!("Database recovery successful");
""", new="""        db.supervisor
            .snapshot_tracker
            .set(db.supervisor.seqno.get());

        log::trace!("Database recovery successful");
"""))

# ======================================================================== C12
B("C12-remove-no-deleted-check", "C12", "C12:R-C12.1:keyspace::Keyspace::remove", KS,
  """    pub fn remove<K: Into<UserKey>>(&self, key: K) -> crate::Result<()> {
        use std::sync::atomic::Ordering;

        if self.is_deleted.load(Ordering::Relaxed) {
            return Err(crate::Error::KeyspaceDeleted);
        }
""",
  """    pub fn remove<K: Into<UserKey>>(&self, key: K) -> crate::Result<()> {
""")
B("C12-flag-before-meta-removal", "C12", "C12:R-C12.1:db::Database::delete_keyspace", DB,
  """        self.meta_keyspace.remove_keyspace(&handle.name)?;

        handle
            .is_deleted
            .store(true, std::sync::atomic::Ordering::Release);
""",
  """        handle
            .is_deleted
            .store(true, std::sync::atomic::Ordering::Release);

        self.meta_keyspace.remove_keyspace(&handle.name)?;
""")
B("C12-replay-unknown-id-into-first", "C12", "C12:R-C12.2:recovery::recover_sealed_memtables", REC,
  """                let Some(handle) = keyspaces_lock.get(&keyspace_name) else {
                    continue;
                };

                let tree = &handle.tree;
""",
  """                let Some(handle) = keyspaces_lock.get(&keyspace_name).or_else(|| keyspaces_lock.values().next()) else {
                    continue;
                };

                let tree = &handle.tree;
""")
B("C12-replay-skips-resolve", "C12", "C12:R-C12.2:db::Database::recover", DB,
  """                    for keyspace_id in &batch.cleared_keyspaces {
                        let Some(keyspace_name) = db.meta_keyspace.resolve_id(*keyspace_id)? else {
                            continue;
                        };

                        let Some(keyspace) = keyspaces.get(&keyspace_name) else {
                            continue;
                        };

                        keyspace.tree.clear().ok();""",
  """                    for keyspace_id in &batch.cleared_keyspaces {
                        let Some(keyspace) = keyspaces.values().find(|k| k.id == *keyspace_id) else {
                            continue;
                        };

                        keyspace.tree.clear().ok();""")
B("C12-counter-reseed-no-plus-one", "C12", "C12:R-C12.4:recovery::recover_keyspaces:counter", REC,
  "db.keyspace_id_counter.set(highest_id + 1);", "db.keyspace_id_counter.set(highest_id);")
B("C12-max-after-continue", "C12", "C12:R-C12.4:recovery::recover_keyspaces:counter", REC,
  """        highest_id = highest_id.max(keyspace_id);

        let Some(keyspace_name) = meta_keyspace.resolve_id(keyspace_id)? else {
            log::debug!("Deleting unreferenced keyspace id={keyspace_id}");
            std::fs::remove_dir_all(keyspace_path)?;
            continue;
        };
""",
  """        let Some(keyspace_name) = meta_keyspace.resolve_id(keyspace_id)? else {
            log::debug!("Deleting unreferenced keyspace id={keyspace_id}");
            std::fs::remove_dir_all(keyspace_path)?;
            continue;
        };

        highest_id = highest_id.max(keyspace_id);
""")
B("C12-dir-before-manifest", "C12", "C12:R-C12.5:<keyspace::KeyspaceInner as std::ops::Drop>::drop", KS,
  """                        if let Err(e) = std::fs::remove_file(manifest_file) {
                            log::error!(
                                "Failed to cleanup keyspace manifest at {}: {e}",
                                path.display(),
                            );
                        } else {
                            if let Err(e) = std::fs::remove_dir_all(path) {""",
  """                        if let Err(e) = std::fs::remove_file(manifest_file) {
                            log::error!(
                                "Failed to cleanup keyspace manifest at {}: {e}",
                                path.display(),
                            );
                        }
                        {
                            if let Err(e) = std::fs::remove_dir_all(path) {""")
B("C12-batch-journals-wrong-id", "C12", "C12:R-C12.3:journal::writer::Writer::write_batch", WRITER,
  """                &mut self.buf,
                item.keyspace.id,
                &item.key,
                &item.value,
                item.value_type,""",
  """                &mut self.buf,
                item.keyspace.id + 1,
                &item.key,
                &item.value,
                item.value_type,""")
B("C12-meta-id-mismatch", "C12", "C12:R-C12.4:db::Database::keyspace:one-fresh-id", DB,
  """            self.meta_keyspace
                .create_keyspace(keyspace_id, &name, handle.clone(), keyspaces)?;""",
  """            self.meta_keyspace
                .create_keyspace(self.keyspace_id_counter.next(), &name, handle.clone(), keyspaces)?;""")
B("C12-drop-deletes-live-keyspace", "C12", "C12:R-C12.5:<keyspace::KeyspaceInner as std::ops::Drop>::drop", KS,
  "        if self.is_deleted.load(std::sync::atomic::Ordering::Acquire) {\n            let path = &self.tree.tree_config().path;",
  "        if !self.is_deleted.load(std::sync::atomic::Ordering::Acquire) {\n            let path = &self.tree.tree_config().path;")

# ======================================================================== C04
B("C04-sealed-replay-tombstone-as-insert", "C04", "C04:R-C04.1", REC,
  """                    lsm_tree::ValueType::Tombstone => {
                        tree.remove(item.key, batch.seqno);
                    }""",
  """                    lsm_tree::ValueType::Tombstone => {
                        tree.insert(item.key, item.value, batch.seqno);
                    }""")
B("C04-active-replay-no-clear", "C04", "C04:R-C04.1:db::Database::recover:replay-cleared", DB,
  """                        keyspace.tree.clear().ok();
                    }
                }""",
  """                        let _ = keyspace;
                    }
                }""")
B("C04-replay-wrong-seqno", "C04", "C04:R-C04.1:recovery::recover_sealed_memtables:replay-insert-operands", REC,
  """                    lsm_tree::ValueType::Value => {
                        tree.insert(item.key, item.value, batch.seqno);
                    }
                    lsm_tree::ValueType::Tombstone => {
                        tree.remove(item.key, batch.seqno);
                    }
                    lsm_tree::ValueType::WeakTombstone => {
                        tree.remove_weak(item.key, batch.seqno);
                    }
                    lsm_tree::ValueType::Indirection => {
                        unreachable!()
                    }
                }
            }

            for keyspace_id in &batch.cleared_keyspaces {
                let Some(keyspace_name) = db.meta_keyspace.resolve_id(*keyspace_id)? else {""",
  """                    lsm_tree::ValueType::Value => {
                        tree.insert(item.key, item.value, db.supervisor.seqno.next());
                    }
                    lsm_tree::ValueType::Tombstone => {
                        tree.remove(item.key, batch.seqno);
                    }
                    lsm_tree::ValueType::WeakTombstone => {
                        tree.remove_weak(item.key, batch.seqno);
                    }
                    lsm_tree::ValueType::Indirection => {
                        unreachable!()
                    }
                }
            }

            for keyspace_id in &batch.cleared_keyspaces {
                let Some(keyspace_name) = db.meta_keyspace.resolve_id(*keyspace_id)? else {""")
B("C04-clear-not-journaled-first", "C04", "C04:R-C04.2:keyspace::Keyspace::clear", KS,
  """        self.tree.clear().inspect_err(|_| {
            self.is_poisoned.poison();
        })?;

        self.supervisor.snapshot_tracker.publish(seqno);

        drop(journal_writer);

        Ok(())
    }

    /// Returns the number of blob bytes""",
  """        self.supervisor.snapshot_tracker.publish(seqno);

        drop(journal_writer);

        Ok(())
    }

    /// Returns the number of blob bytes""")
B("C04-skip-polarity-flipped", "C04", "C04:R-C04.4", REC,
  "keyspace_lsn.is_some_and(|keyspace_lsn| keyspace_lsn >= wm.lsn);", "keyspace_lsn.is_some_and(|keyspace_lsn| keyspace_lsn <= wm.lsn);")
B("C04-skip-branches-swapped", "C04", "C04:R-C04.4", REC,
  "            if should_skip_sealed_memtable {", "            if !should_skip_sealed_memtable {")
B("C04-reader-drops-clear", "C04", "C04:R-C04.2:<journal::batch_reader::JournalBatchReader as std::iter::Iterator>::next", "src/journal/batch_reader.rs",
  "                    self.cleared_keyspaces.push(keyspace_id);", "                    let _ = keyspace_id;")

# ======================================================================== C01
B("C01-next_back-calls-next", "C01", "C01:R-C01.2:<iter::Iter as std::iter::DoubleEndedIterator>::next_back", "src/iter.rs",
  "        self.iter.next_back().map(Guard)", "        self.iter.next().map(Guard)")
B("C01-batch-tombstone-inserts", "C01", "C01:R-C01.1:batch::WriteBatch::commit", BATCH,
  "ValueType::Tombstone => item.keyspace.tree.remove(item.key, batch_seqno),", "ValueType::Tombstone => item.keyspace.tree.insert(item.key, item.value, batch_seqno),")
B("C01-last-is-first", "C01", "C01:R-C01.2:keyspace::Keyspace::last_key_value", KS,
  "self.tree.last_key_value(nonce.instant, None).map(Guard)", "self.tree.first_key_value(nonce.instant, None).map(Guard)")
B("C01-snapshot-last-uses-next", "C01", "C01:R-C01.2:<snapshot::Snapshot as readable::Readable>::last_key_value", "src/snapshot.rs",
  "        self.iter(keyspace).next_back()", "        self.iter(keyspace).next()")
B("C01-guard-value-returns-key", "C01", "C01:R-C01.2:guard::Guard::value", "src/guard.rs",
  "        self.0.value().map_err(Into::into)", "        self.0.key().map_err(Into::into)")
B("C01-insert-journals-tombstone", "C01", "C01:R-C01.1:keyspace::Keyspace::insert:journal-kind", KS,
  ".write_raw(self.id, &key, &value, lsm_tree::ValueType::Value, seqno)", ".write_raw(self.id, &key, &value, lsm_tree::ValueType::Tombstone, seqno)")
B("C01-remove-applies-other-key", "C01", "C01:R-C01.1:keyspace::Keyspace::remove:journal-kind", KS,
  """        let (item_size, memtable_size) = self.tree.remove(key, seqno);

        self.supervisor.snapshot_tracker.publish(seqno);

        drop(journal_writer);

        self.supervisor.write_buffer_size.allocate(item_size);
        self.maintenance(memtable_size);

        Ok(())
    }

    /// Removes an item from the keyspace, leaving behind a weak tombstone.""",
  """        let (item_size, memtable_size) = self.tree.remove(UserKey::from(&key[..key.len() / 2]), seqno);

        self.supervisor.snapshot_tracker.publish(seqno);

        drop(journal_writer);

        self.supervisor.write_buffer_size.allocate(item_size);
        self.maintenance(memtable_size);

        Ok(())
    }

    /// Removes an item from the keyspace, leaving behind a weak tombstone.""")
B("C01-tx-keyspace-get-size", "C01", "C01:R-C01.2:tx::single_writer::keyspace::SingleWriterTxKeyspace::contains_key", "src/tx/single_writer/keyspace.rs",
  "        self.inner.contains_key(key)", "        Ok(self.inner.get(key)?.is_some_and(|v| !v.is_empty()))")
B("C01-sw-tx-range-is-prefix", "C01", "C01:R-C01.2:<tx::single_writer::write_tx::WriteTransaction<'_> as readable::Readable>::first_key_value", "src/tx/single_writer/write_tx.rs",
  "        self.inner.first_key_value(keyspace)", "        self.inner.last_key_value(keyspace)")
B("C01-snapshot-reads-other-keyspace", "C01", "C01:R-C01.2", "src/tx/write_tx.rs",
  """        let res = keyspace.tree.get(key, self.nonce.instant)?;

        Ok(res)""",
  """        let other = self.memtables.keys().next().unwrap_or(keyspace);
        let res = other.tree.get(key, self.nonce.instant)?;

        Ok(res)""")
E("EQ-first-via-iter", KS,
  "self.tree.first_key_value(nonce.instant, None).map(Guard)", "self.tree.iter(nonce.instant, None).next().map(Guard)")

# ======================================================================== C15
ENTRY = "src/journal/entry.rs"
B("C15-keylen-width-mismatch", "C15", "C15:R-C15.1:journal::entry::Entry::encode_into:kind-Item-writer-equals-reader", ENTRY,
  "let key_len = reader.read_u16::<LittleEndian>()?;", "let key_len = reader.read_u32::<LittleEndian>()? as u16;")
B("C15-endianness-mismatch", "C15", "C15:R-C15.1:journal::entry::Entry::encode_into:kind-Start-writer-equals-reader", ENTRY,
  """                let item_count = reader.read_u32::<LittleEndian>()?;
                let seqno = reader.read_u64::<LittleEndian>()?;""",
  """                let item_count = reader.read_u32::<LittleEndian>()?;
                let seqno = reader.read_u64::<byteorder::BigEndian>()?;""")
B("C15-length-fields-swapped", "C15", "C15:R-C15.1:journal::entry::Entry::encode_into:kind-Item-length-fields", ENTRY,
  """                        Slice::from_reader(reader, on_disk_value_len as usize)?
                    }

                    #[cfg(feature = "lz4")]""",
  """                        Slice::from_reader(reader, value_len as usize)?
                    }

                    #[cfg(feature = "lz4")]""")
B("C15-clear-field-order", "C15", "C15:R-C15.1:journal::entry::Entry::encode_into:kind-Clear", ENTRY,
  """            Clear { keyspace_id } => {
                writer.write_u8(Tag::Clear.into())?;
                writer.write_u64::<LittleEndian>(*keyspace_id)?;
            }""",
  """            Clear { keyspace_id } => {
                writer.write_u8(Tag::Clear.into())?;
                writer.write_u32::<LittleEndian>(*keyspace_id as u32)?;
            }""")
B("C15-tag-table-swapped", "C15", "C15:R-C15.2", ENTRY,
  """            3 => Ok(End),
            4 => Ok(Clear),""",
  """            4 => Ok(End),
            3 => Ok(Clear),""")
B("C15-compression-from-config", "C15", "C15:R-C15.3:journal::entry::serialize_marker_item", ENTRY,
  """    compression.encode_into(writer)?;

    let compressed_value = match compression {""",
  """    CompressionType::None.encode_into(writer)?;

    let compressed_value = match compression {""")
B("C15-hash-before-serialise", "C15", "C15:R-C15.4:journal::writer::Writer::write_raw", WRITER,
  """        self.file.write_all(&self.buf)?;

        hasher.update(&self.buf);
        byte_count += self.buf.len();

        self.buf.clear();
        let checksum = hasher.finish();
        byte_count += self.write_end(checksum)?;

        Ok(byte_count)
    }

    pub(crate) fn write_clear(""",
  """        self.file.write_all(&self.buf)?;

        byte_count += self.buf.len();

        self.buf.clear();
        hasher.update(&self.buf);
        let checksum = hasher.finish();
        byte_count += self.write_end(checksum)?;

        Ok(byte_count)
    }

    pub(crate) fn write_clear(""")
B("C15-trailer-unchecked", "C15", "C15:R-C15.5", ENTRY,
  """                if magic != MAGIC_BYTES {
                    return Err(crate::Error::InvalidTrailer);
                }""",
  """                if magic.is_empty() {
                    return Err(crate::Error::InvalidTrailer);
                }""")
B("C15-reader-hash-reset-in-start", "C15", "C15:R-C15.4:<journal::batch_reader::JournalBatchReader as std::iter::Iterator>::next:hasher-reset", BRD,
  """                    self.is_in_batch = true;
                    self.batch_counter = item_count;""",
  """                    self.is_in_batch = true;
                    self.checksum_builder = xxhash_rust::xxh3::Xxh3::new();
                    self.batch_counter = item_count;""")
B("C15-version-table", "C15", "C15:R-C15.2", "src/version.rs",
  """            FormatVersion::V2 => 2,
            FormatVersion::V3 => 3,""",
  """            FormatVersion::V2 => 3,
            FormatVersion::V3 => 2,""")

# ======================================================================== C16
OPTS = "src/keyspace/options.rs"
B("C16-pinning-into-partitioning", "C16", "C16:R-C16.1:keyspace::options::CreateOptions::from_kvs:key-filter_block_pinning_policy", OPTS,
  """        let filter_block_partitioning_policy = meta_keyspace
            .get_kv_for_config(keyspace_id, "filter_block_partitioning_policy")?""",
  """        let filter_block_partitioning_policy = meta_keyspace
            .get_kv_for_config(keyspace_id, "filter_block_pinning_policy")?""")
B("C16-memtable-size-u32", "C16", "C16:R-C16.2:keyspace::options::CreateOptions::from_kvs:width-max_memtable_size", OPTS,
  "let max_memtable_size = (&mut &max_memtable_size[..]).read_u64::<byteorder::LE>()?;", "let max_memtable_size = u64::from((&mut &max_memtable_size[..]).read_u32::<byteorder::LE>()?);")
B("C16-key-typo-on-write", "C16", "C16:R-C16.1:keyspace::options::CreateOptions::from_kvs:key-index_block_pinning_policy-is-written", OPTS,
  """            policy!(
                keyspace_id,
                "index_block_pinning_policy",
                self.index_block_pinning_policy
            ),""",
  """            policy!(
                keyspace_id,
                "index_block_pining_policy",
                self.index_block_pinning_policy
            ),""")
B("C16-write-wrong-field", "C16", "C16:R-C16.1:keyspace::options::CreateOptions::encode_kvs:key-index_block_compression_policy", OPTS,
  """            policy!(
                keyspace_id,
                "index_block_compression_policy",
                self.index_block_compression_policy
            ),""",
  """            policy!(
                keyspace_id,
                "index_block_compression_policy",
                self.data_block_compression_policy
            ),""")
B("C16-blob-threshold-swapped", "C16", "C16:R-C16.1:keyspace::options::CreateOptions::encode_kvs:key-blob_staleness_threshold", OPTS,
  "(key, blob_opts.staleness_threshold.to_le_bytes().into())", "(key, blob_opts.age_cutoff.to_le_bytes().into())")
B("C16-options-applied-to-existing", "C16", "C16:R-C16.4:db::Database::keyspace:options-closure-only-for-new-keyspace", DB,
  """        let keyspaces = self.supervisor.keyspaces.write().expect("lock is poisoned");

        Ok(if let Some(keyspace) = keyspaces.get(name) {
            keyspace.clone()
        } else {
            let name: KeyspaceKey = name.into();

            let keyspace_id = self.keyspace_id_counter.next();

            let mut opts = create_options();
""",
  """        let keyspaces = self.supervisor.keyspaces.write().expect("lock is poisoned");
        let mut opts = create_options();

        Ok(if let Some(keyspace) = keyspaces.get(name) {
            keyspace.clone()
        } else {
            let name: KeyspaceKey = name.into();

            let keyspace_id = self.keyspace_id_counter.next();
""")
B("C16-setter-dropped", "C16", "C16:R-C16.6:keyspace::apply_to_base_config:option-filter_policy", KS,
  "        .filter_policy(our_config.filter_policy.clone())\n", "")
B("C16-setter-crossed", "C16", "C16:R-C16.6:keyspace::apply_to_base_config", KS,
  "        .filter_block_pinning_policy(our_config.filter_block_pinning_policy.clone())\n        .index_block_pinning_policy(our_config.index_block_pinning_policy.clone())",
  "        .filter_block_pinning_policy(our_config.index_block_pinning_policy.clone())\n        .index_block_pinning_policy(our_config.filter_block_pinning_policy.clone())")
B("C16-recover-applies-default", "C16", "C16:R-C16.5:recovery::recover_keyspaces", REC,
  "        let base_config = apply_to_base_config(base_config, &recovered_config);", "        let base_config = apply_to_base_config(base_config, &KeyspaceCreateOptions::default());")
B("C16-hash-ratio-codec-width", "C16", "C16:R-C16.3", "src/keyspace/config/hash_ratio.rs",
  "v.push(bytes.read_f32::<LittleEndian>()?);", "v.push(bytes.read_f32::<byteorder::BigEndian>()?);")
B("C16-filter-tag-swapped", "C16", "C16:R-C16.3:keyspace::config::filter", "src/keyspace/config/filter.rs",
  """                        crate::config::BloomConstructionPolicy::BitsPerKey(bits) => {
                            v.write_u8(0).expect("cannot fail writing into a vec");""",
  """                        crate::config::BloomConstructionPolicy::BitsPerKey(bits) => {
                            v.write_u8(2).expect("cannot fail writing into a vec");""")

# ======================================================================== C17
LF = "src/locked_file.rs"
B("C17-journal-before-version", "C17", "C17:R-C17.1:db::Database::recover", DB,
  """        // Check version
        Self::check_version(&config.path)?;

        let lock_file = LockedFileGuard::try_acquire(&config.path.join(LOCK_FILE))?;
""",
  """        let lock_file = LockedFileGuard::try_acquire(&config.path.join(LOCK_FILE))?;

        // Check version
        Self::check_version(&config.path)?;
""")
B("C17-lock-after-journal-recover", "C17", "C17:R-C17.2:db::Database::recover:lock-dominates", DB,
  """        let lock_file = LockedFileGuard::try_acquire(&config.path.join(LOCK_FILE))?;

        // TODO:
        // let recovery_mode = config.journal_recovery_mode;

        // Reload active journal
        let journal_recovery = Journal::recover(
            &config.path,
            config.journal_compression_type,
            config.journal_compression_threshold,
        )?;""",
  """        // Reload active journal
        let journal_recovery = Journal::recover(
            &config.path,
            config.journal_compression_type,
            config.journal_compression_threshold,
        )?;

        let lock_file = LockedFileGuard::try_acquire(&config.path.join(LOCK_FILE))?;""")
B("C17-version-accepts-non-v3", "C17", "C17:R-C17.1:db::Database::check_version:ok-only-for-v3", DB,
  """            if version != FormatVersion::V3 {
                return Err(crate::Error::InvalidVersion(Some(version)));
            }""",
  """            if version == FormatVersion::V1 {
                return Err(crate::Error::InvalidVersion(Some(version)));
            }""")
B("C17-blocking-lock", "C17", "C17:R-C17.2:locked_file::LockedFileGuard::create_new", LF,
  """        file.try_lock().map_err(|e| match e {
            std::fs::TryLockError::Error(e) => {
                log::error!("Failed to acquire database lock - if this is expected, you can try opening again (maybe wait a little)");
                crate::Error::Io(e)
            }
            std::fs::TryLockError::WouldBlock => crate::Error::Locked,
        })?;""",
  """        file.lock()?;""")
B("C17-guard-despite-lock-error", "C17", "C17:R-C17.2:locked_file::LockedFileGuard::try_acquire:guard-only", LF,
  """                    std::fs::TryLockError::Error(e) => {
                        log::error!("Failed to acquire database lock - if this is expected, you can try opening again (maybe wait a little)");
                        return Err(crate::Error::Io(e));
                    }""",
  """                    std::fs::TryLockError::Error(e) => {
                        log::error!("Failed to acquire database lock - if this is expected, you can try opening again (maybe wait a little): {e}");
                        break;
                    }""")
B("C17-keyspace-own-lock-guard", "C17", "C17:R-C17.3", KS,
  """            is_poisoned: db.is_poisoned.clone(),
            lock_file: db.lock_file.clone(),
            stats: db.stats.clone(),
        }))
    }""",
  """            is_poisoned: db.is_poisoned.clone(),
            lock_file: LockedFileGuard::try_acquire(&db.config.path.join("lock2")).unwrap_or_else(|_| db.lock_file.clone()),
            stats: db.stats.clone(),
        }))
    }""")
B("C17-drop-forgets-keyspaces-clear", "C17", "C17:R-C17.4:<db::DatabaseInner as std::ops::Drop>::drop:breaks-cycle-keyspaces", DB,
  """        self.supervisor
            .keyspaces
            .write()
            .expect("lock is poisoned")
            .clear();
        self.supervisor
            .journal_manager""",
  """        self.supervisor
            .journal_manager""")
B("C17-drop-no-wait", "C17", "C17:R-C17.4:<db::DatabaseInner as std::ops::Drop>::drop:waits-for-workers", DB,
  """        while self
            .active_thread_counter
            .load(std::sync::atomic::Ordering::Relaxed)
            > 0
        {""",
  """        if self
            .active_thread_counter
            .load(std::sync::atomic::Ordering::Relaxed)
            > 0
        {""")
B("C17-worker-no-decrement", "C17", "C17:R-C17.4:worker_pool::WorkerPool::start::{closure#0}::{closure#0}", "src/worker_pool.rs",
  """                            let _thread_counter = ThreadCounterGuard(thread_counter);
""",
  """                            let _thread_counter = ThreadCounterGuard(Arc::new(AtomicUsize::new(1)));
                            let _ = &thread_counter;
""")

# ======================================================================== C18
B("C18-no-assigner-on-recovery", "C18", "C18:R-C18.1:recovery::recover_keyspaces", REC,
  """        if let Some(f) = db
            .config
            .compaction_filter_factory_assigner
            .as_ref()
            .and_then(|f| f(&keyspace_name))
        {
            recovered_config = recovered_config.with_compaction_filter_factory(f);
        }
""",
  """        let _ = &mut recovered_config;
""")
B("C18-assigner-wrong-name", "C18", "C18:R-C18.1:db::Database::keyspace", DB,
  """                .and_then(|f| f(&name))
            {
                opts = opts.with_compaction_filter_factory(f);""",
  """                .and_then(|f| f("default"))
            {
                opts = opts.with_compaction_filter_factory(f);""")
B("C18-factory-on-default-options", "C18", "C18:R-C18.1:db::Database::keyspace", DB,
  """                opts = opts.with_compaction_filter_factory(f);""",
  """                opts = KeyspaceCreateOptions::default().with_compaction_filter_factory(f);""")
B("C18-extra-install-site", "C18", "C18:R-C18.2:keyspace::Keyspace::create_new", KS,
  """        let base_config = apply_to_base_config(base_config, &config);
        let tree = base_config.open()?;""",
  """        let config = match db
            .config
            .compaction_filter_factory_assigner
            .as_ref()
            .and_then(|f| f("default"))
        {
            Some(f) => config.with_compaction_filter_factory(f),
            None => config,
        };
        let base_config = apply_to_base_config(base_config, &config);
        let tree = base_config.open()?;""")
B("C18-factory-not-applied", "C18", "C18:R-C18.2:keyspace::apply_to_base_config", KS,
  "        .with_compaction_filter_factory(our_config.compaction_filter_factory.clone())", "        .with_compaction_filter_factory(None)")
B("C18-compacts-other-strategy", "C18", "C18:R-C18.3:compaction::worker::run", "src/compaction/worker.rs",
  "    let strategy = keyspace.config.compaction_strategy.clone();", "    let strategy: std::sync::Arc<dyn lsm_tree::compaction::CompactionStrategy + Send + Sync> = std::sync::Arc::new(crate::compaction::Leveled::default());")

# ======================================================================== regressions from seeded mutations / fixed findings
B("S01-C07-prune-above-watermark", "C07", "C07:R-C07.7", "src/tx/optimistic/oracle.rs",
  "let safe_to_gc = self.snapshot_tracker.get_seqno_safe_to_gc();", "let safe_to_gc = self.snapshot_tracker.get_seqno_safe_to_gc().max(instant);")
B("S02-C03-repair-reallocates-tail", "C03", "C03:R-C03.3:journal::batch_reader::JournalBatchReader::truncate_to:repair-leaves", "src/journal/batch_reader.rs",
  """        file.set_len(last_valid_pos)?;
        file.sync_all()?;""",
  """        file.set_len(last_valid_pos)?;
        file.set_len(crate::journal::writer::PRE_ALLOCATED_BYTES)?;
        file.sync_all()?;""")
B("S03-C13-recovered-keyspace-private-flag", "C13", "C13:R-C13.3:keyspace::Keyspace::from_database", KS,
  """            is_deleted: AtomicBool::default(),
            is_poisoned: db.is_poisoned.clone(),
            lock_file: db.lock_file.clone(),""",
  """            is_deleted: AtomicBool::default(),
            is_poisoned: PoisonSignal::default(),
            lock_file: db.lock_file.clone(),""")
B("F05-C03-decode-debug-assert", "C03", "C03:R-C03.6:journal::entry::Entry::decode_from", "src/journal/entry.rs",
  """                        if value_len != on_disk_value_len {
                            return Err(crate::Error::JournalRecovery(
                                crate::JournalRecoveryError::InsufficientLength,
                            ));
                        }
""",
  """                        debug_assert_eq!(value_len, on_disk_value_len);
""")
B("S04-C02-evict-journal-of-unflushed-keyspace", "C02", "C02:R-C02.6", JMAN,
  """                    let Some(keyspace_seqno) = item.keyspace.tree.get_highest_persisted_seqno()
                    else {
                        return Ok(());
                    };""",
  """                    let Some(keyspace_seqno) = item.keyspace.tree.get_highest_persisted_seqno()
                    else {
                        continue;
                    };""")
B("S05-C09-clear-does-not-mark-buffer-dirty", "C09", "C09:R-C09.7:journal::writer::Writer::write_clear", WRITER,
  """        seqno: SeqNo,
    ) -> crate::Result<usize> {
        self.is_buffer_dirty = true;

        let mut hasher = xxhash_rust::xxh3::Xxh3::default();
        let mut byte_count = 0;

        self.buf.clear();
        byte_count += self.write_start(1, seqno)?;
        self.buf.clear();

        Entry::Clear { keyspace_id }""",
  """        seqno: SeqNo,
    ) -> crate::Result<usize> {
        let mut hasher = xxhash_rust::xxh3::Xxh3::default();
        let mut byte_count = 0;

        self.buf.clear();
        byte_count += self.write_start(1, seqno)?;
        self.buf.clear();

        Entry::Clear { keyspace_id }""")
B("S06-C12-replay-break-on-deleted-keyspace", "C12", "C12:R-C12.2:db::Database::recover:unknown-id-skips-only-that-record", DB,
  """                        let Some(keyspace_name) = db.meta_keyspace.resolve_id(item.keyspace_id)?
                        else {
                            continue;
                        };""",
  """                        let Some(keyspace_name) = db.meta_keyspace.resolve_id(item.keyspace_id)?
                        else {
                            break;
                        };""")
B("S07-C06-visible-counter-aliases-generator", "C06", "C06:R-C06.4:db::Database::recover", DB,
  """        let seqno = SequenceNumberCounter::default();
        let visible_seqno = SequenceNumberCounter::default();

        let meta_tree = lsm_tree::Config::new(
            config.path.join(KEYSPACES_FOLDER).join("0"),
            seqno.clone(),
            visible_seqno.clone(),
        )
        .use_cache(config.cache.clone())
        .use_descriptor_table(config.descriptor_table.clone())
        .expect_point_read_hits(true)
        .data_block_size_policy(crate::config::BlockSizePolicy::all(4_096))
        .data_block_hash_ratio_policy(crate::config::HashRatioPolicy::all(8.0))
        .data_block_compression_policy(crate::config::CompressionPolicy::disabled())
        .data_block_restart_interval_policy(crate::config::RestartIntervalPolicy::all(1))
        .index_block_compression_policy(crate::config::CompressionPolicy::disabled())
        .filter_policy(crate::config::FilterPolicy::new([
            lsm_tree::config::FilterPolicyEntry::Bloom(
                lsm_tree::config::BloomConstructionPolicy::FalsePositiveRate(0.0001),
            ),
            lsm_tree::config::FilterPolicyEntry::Bloom(
                lsm_tree::config::BloomConstructionPolicy::FalsePositiveRate(0.01),
            ),
        ]))
        .open()?;

        let keyspaces = Arc::new(RwLock::default());

        let meta_keyspace = MetaKeyspace::new(
            meta_tree,
            keyspaces.clone(),
            seqno.clone(),
            visible_seqno.clone(),
        );

        let supervisor = Supervisor::new(SupervisorInner {
            db_config: config.clone(),
            keyspaces,
            flush_manager: FlushManager::new(),
            write_buffer_size: WriteBufferManager::default(),
            snapshot_tracker: SnapshotTracker::new(visible_seqno),
            journal: active_journal,""",
  """        let seqno = SequenceNumberCounter::default();
        let visible_seqno = seqno.clone();

        let meta_tree = lsm_tree::Config::new(
            config.path.join(KEYSPACES_FOLDER).join("0"),
            seqno.clone(),
            visible_seqno.clone(),
        )
        .use_cache(config.cache.clone())
        .use_descriptor_table(config.descriptor_table.clone())
        .expect_point_read_hits(true)
        .data_block_size_policy(crate::config::BlockSizePolicy::all(4_096))
        .data_block_hash_ratio_policy(crate::config::HashRatioPolicy::all(8.0))
        .data_block_compression_policy(crate::config::CompressionPolicy::disabled())
        .data_block_restart_interval_policy(crate::config::RestartIntervalPolicy::all(1))
        .index_block_compression_policy(crate::config::CompressionPolicy::disabled())
        .filter_policy(crate::config::FilterPolicy::new([
            lsm_tree::config::FilterPolicyEntry::Bloom(
                lsm_tree::config::BloomConstructionPolicy::FalsePositiveRate(0.0001),
            ),
            lsm_tree::config::FilterPolicyEntry::Bloom(
                lsm_tree::config::BloomConstructionPolicy::FalsePositiveRate(0.01),
            ),
        ]))
        .open()?;

        let keyspaces = Arc::new(RwLock::default());

        let meta_keyspace = MetaKeyspace::new(
            meta_tree,
            keyspaces.clone(),
            seqno.clone(),
            visible_seqno.clone(),
        );

        let supervisor = Supervisor::new(SupervisorInner {
            db_config: config.clone(),
            keyspaces,
            flush_manager: FlushManager::new(),
            write_buffer_size: WriteBufferManager::default(),
            snapshot_tracker: SnapshotTracker::new(visible_seqno),
            journal: active_journal,""")

# ======================================================================== more behaviour-preserving refactors
E2("EQ-seqno-helper-fn", [
    (KS, """        let seqno = self.supervisor.seqno.next();

        journal_writer
            .write_raw(self.id, &key, &value, lsm_tree::ValueType::Value, seqno)""",
     """        let seqno = self.next_seqno();

        journal_writer
            .write_raw(self.id, &key, &value, lsm_tree::ValueType::Value, seqno)"""),
    (KS, """    fn check_write_halt(&self) {""", """    fn next_seqno(&self) -> crate::SeqNo {
        self.supervisor.seqno.next()
    }

    fn check_write_halt(&self) {""")])
E2("EQ-journal-lock-helper-fn", [
    (KS, """        let key = key.into();

        let mut journal_writer = self.supervisor.journal.get_writer()?;

        // IMPORTANT: Check the poisoned flag after getting journal mutex, otherwise TOCTOU
        if self.is_poisoned.is_poisoned() {
            return Err(crate::Error::Poisoned);
        }

        let seqno = self.supervisor.seqno.next();

        journal_writer
            .write_raw(self.id, &key, &[], lsm_tree::ValueType::Tombstone, seqno)""",
     """        let key = key.into();

        let mut journal_writer = self.lock_journal()?;

        // IMPORTANT: Check the poisoned flag after getting journal mutex, otherwise TOCTOU
        if self.is_poisoned.is_poisoned() {
            return Err(crate::Error::Poisoned);
        }

        let seqno = self.supervisor.seqno.next();

        journal_writer
            .write_raw(self.id, &key, &[], lsm_tree::ValueType::Tombstone, seqno)"""),
    (KS, """    fn check_write_halt(&self) {""", """    fn lock_journal(&self) -> crate::Result<MutexGuard<'_, crate::journal::writer::Writer>> {
        self.supervisor.journal.get_writer()
    }

    fn check_write_halt(&self) {""")])
E("EQ-batch-len-local", BATCH,
  "        journal_writer\n            .write_batch(self.data.iter(), self.data.len(), batch_seqno)",
  "        let item_count = self.data.len();\n        journal_writer\n            .write_batch(self.data.iter(), item_count, batch_seqno)")
E("EQ-open-uses-get", TRACKER,
  """        let _lock = self.gc_lock.read().expect("lock is poisoned");

        let seqno = self.seqno.get();

        self.data
            .entry(seqno)""",
  """        let _lock = self.gc_lock.read().expect("lock is poisoned");

        let seqno = self.get();

        self.data
            .entry(seqno)""")
E("EQ-maintenance-match", JMAN,
  """                    let Some(keyspace_seqno) = item.keyspace.tree.get_highest_persisted_seqno()
                    else {
                        return Ok(());
                    };

                    if keyspace_seqno < item.lsn {
                        log::trace!(
                            "Keyspace {:?} not flushed enough to evict journal",
                            item.keyspace.name,
                        );
                        return Ok(());
                    }""",
  """                    match item.keyspace.tree.get_highest_persisted_seqno() {
                        None => return Ok(()),
                        Some(keyspace_seqno) if item.lsn > keyspace_seqno => {
                            log::trace!(
                                "Keyspace {:?} not flushed enough to evict journal",
                                item.keyspace.name,
                            );
                            return Ok(());
                        }
                        Some(_) => {}
                    }""")
E("EQ-iter-next-question-mark", "src/iter.rs",
  "        self.iter.next().map(Guard)", "        let inner = self.iter.next()?;\n        Some(Guard(inner))")
E("EQ-insert-id-local", KS,
  """        journal_writer
            .write_raw(self.id, &key, &value, lsm_tree::ValueType::Value, seqno)""",
  """        let own_id = self.id;
        journal_writer
            .write_raw(own_id, &key, &value, lsm_tree::ValueType::Value, seqno)""")
E("EQ-with-commit-ts-local", ORACLE,
  "        committed_txns.insert(self.snapshot_tracker.get(), conflict_checker);",
  "        let commit_ts = self.snapshot_tracker.get();\n        committed_txns.insert(commit_ts, conflict_checker);")
E("EQ-check-version-match", DB,
  """            if version != FormatVersion::V3 {
                return Err(crate::Error::InvalidVersion(Some(version)));
            }""",
  """            match version {
                FormatVersion::V3 => {}
                other => return Err(crate::Error::InvalidVersion(Some(other))),
            }""")
E("EQ-ssi-contains-key-local", OWT,
  """        let contains = self.inner.contains_key(keyspace, key.as_ref())?;

        self.cm.mark_read(keyspace.id, key.as_ref().into());

        Ok(contains)""",
  """        let k = key.as_ref();
        let contains = self.inner.contains_key(keyspace, k)?;
        let ks_id = keyspace.id;

        self.cm.mark_read(ks_id, k.into());

        Ok(contains)""")
E("EQ-persist-sync-helper", WRITER,
  """            PersistMode::SyncAll => self.file.get_mut().sync_all().inspect_err(|e| {
                log::error!(
                    "Failed to fsync journal file at {}: {e:?}",
                    self.path.display(),
                );
            }),""",
  """            PersistMode::SyncAll => {
                let file = self.file.get_mut();
                let res = file.sync_all();
                if let Err(e) = &res {
                    log::error!("Failed to fsync journal file at {}: {e:?}", self.path.display());
                }
                res
            }""")
E("EQ-delete-keyspace-name-local", DB,
  """        self.meta_keyspace.remove_keyspace(&handle.name)?;

        handle
            .is_deleted
            .store(true, std::sync::atomic::Ordering::Release);""",
  """        let name = handle.name.clone();
        self.meta_keyspace.remove_keyspace(&name)?;

        let flag = &handle.is_deleted;
        flag.store(true, std::sync::atomic::Ordering::Release);""")
E("EQ-recover-set-local", DB,
  """        db.supervisor
            .snapshot_tracker
            .set(db.supervisor.seqno.get());""",
  """        let next_seqno = db.supervisor.seqno.get();
        db.supervisor.snapshot_tracker.set(next_seqno);""")
E("EQ-drop-manifest-early-return", KS,
  """        if self.is_deleted.load(std::sync::atomic::Ordering::Acquire) {
            let path = &self.tree.tree_config().path;""",
  """        let deleted = self.is_deleted.load(std::sync::atomic::Ordering::Acquire);
        if deleted {
            let path = &self.tree.tree_config().path;""")
B("F06-C17-drop-blocking-send", "C17", "C17:R-C17.4:<db::DatabaseInner as std::ops::Drop>::drop:wait-loop-never-blocks", DB,
  "            let _ = self.worker_pool.sender.try_send(WorkerMessage::Close);", "            let _ = self.worker_pool.sender.send(WorkerMessage::Close);")
B("S08-C15-lz4-ondisk-gt-value-len-rejected", "C15", "C15:R-C15.6", ENTRY,
  """                        let compressed_value =
                            Slice::from_reader(reader, on_disk_value_len as usize)?;
""",
  """                        if on_disk_value_len > value_len {
                            return Err(crate::Error::JournalRecovery(
                                crate::JournalRecoveryError::InsufficientLength,
                            ));
                        }

                        let compressed_value =
                            Slice::from_reader(reader, on_disk_value_len as usize)?;
""")
B("S09-C16-fifo-limit-read-u32", "C16", "C16:R-C16.2:keyspace::options::CreateOptions::from_kvs:width-fifo_limit", OPTS,
  "                let fifo_limit = (&mut &fifo_limit[..]).read_u64::<LE>()?;", "                let fifo_limit = u64::from((&mut &fifo_limit[..]).read_u32::<LE>()?);")
B("S10-C17-lock-after-journal-creation", "C17", "C17:R-C17.2:db::Database::create_new:lock-dominates", DB,
  """        let lock_file = LockedFileGuard::create_new(&config.path.join(LOCK_FILE))?;

        let journal_folder_path = &config.path;
        let keyspaces_folder_path = config.path.join(KEYSPACES_FOLDER);

        std::fs::create_dir_all(&keyspaces_folder_path)?;

        let active_journal_path = journal_folder_path.join("0.jnl");
        let journal = Journal::create_new(&active_journal_path)?.with_compression(
            config.journal_compression_type,
            config.journal_compression_threshold,
        );
        let journal = Arc::new(journal);
""",
  """        let journal_folder_path = &config.path;
        let keyspaces_folder_path = config.path.join(KEYSPACES_FOLDER);

        std::fs::create_dir_all(&keyspaces_folder_path)?;

        let active_journal_path = journal_folder_path.join("0.jnl");
        let journal = Journal::create_new(&active_journal_path)?.with_compression(
            config.journal_compression_type,
            config.journal_compression_threshold,
        );
        let journal = Arc::new(journal);

        let lock_file = LockedFileGuard::create_new(&config.path.join(LOCK_FILE))?;
""")
B("S12-C04-replayed-clear-only-clears-active-memtable", "C04", "C04:R-C04.1:db::Database::recover:replay-cleared", DB,
  "                        keyspace.tree.clear().ok();", "                        keyspace.tree.clear_active_memtable();")
B("S13-C10-watermark-from-active-memtable-only", "C10", "C10:R-C10.3:supervisor::Supervisor::build_seqno_map", "src/supervisor.rs",
  "if let Some(lsn) = keyspace.tree.get_highest_memtable_seqno() {", "if let Some(lsn) = keyspace.tree.active_memtable().get_highest_seqno() {")

# ======================================================================== second wave of own mutants (probing sub-clauses)
B("C05-clone-registers-other-instant", "C05", "C05:R-C05.1:snapshot_tracker::SnapshotTracker::clone_snapshot", TRACKER,
  """        self.data
            .entry(nonce.instant)
            .and_modify(|x| {
                *x += 1;
            })
            .or_insert(1);

        SnapshotNonce::new(nonce.instant, self.clone())""",
  """        self.data
            .entry(self.seqno.get())
            .and_modify(|x| {
                *x += 1;
            })
            .or_insert(1);

        SnapshotNonce::new(nonce.instant, self.clone())""")
B("C05-close-unlocked-alter", "C05", "C05:R-C05.4:snapshot_tracker::SnapshotTracker::close_raw", TRACKER,
  """        let lock = self.gc_lock.read().expect("lock is poisoned");

        self.data.alter(&instant, |_, v| v.saturating_sub(1));

        let freed = self
            .freed_count
            .fetch_add(1, std::sync::atomic::Ordering::AcqRel)
            + 1;

        drop(lock);""",
  """        let lock = self.gc_lock.read().expect("lock is poisoned");

        let freed = self
            .freed_count
            .fetch_add(1, std::sync::atomic::Ordering::AcqRel)
            + 1;

        drop(lock);

        self.data.alter(&instant, |_, v| v.saturating_sub(1));""")
B("C07-fetch_update-no-read-mark", "C07", "C07:R-C07.1:tx::optimistic::write_tx::WriteTransaction::fetch_update", OWT,
  """        let prev = self.inner.fetch_update(keyspace, key.clone(), f)?;

        self.cm.mark_read(keyspace.id, key.clone());
        self.cm.mark_conflict(keyspace.id, key);""",
  """        let prev = self.inner.fetch_update(keyspace, key.clone(), f)?;

        self.cm.mark_conflict(keyspace.id, key);""")
B("C07-range-records-narrower", "C07", "C07:R-C07.1:<tx::optimistic::write_tx::WriteTransaction as readable::Readable>::range", OWT,
  """        self.cm.mark_range(keyspace.as_ref().id, (start, end));

        self.inner.range(keyspace, range)""",
  """        self.cm.mark_range(keyspace.as_ref().id, (start.clone(), start));
        let _ = end;

        self.inner.range(keyspace, range)""")
B("C08-overlay-of-other-keyspace", "C08", "C08:R-C08.1:<tx::write_tx::BaseTransaction as readable::Readable>::prefix", TXW,
  """        let iter = keyspace.tree.prefix(
            prefix,
            self.nonce.instant,
            self.memtables
                .get(keyspace)
                .cloned()
                .map(|mt| (mt, self.seqno)),
        );""",
  """        let iter = keyspace.tree.prefix(
            prefix,
            self.nonce.instant,
            self.memtables
                .values()
                .next()
                .cloned()
                .map(|mt| (mt, self.seqno)),
        );""")
B("C08-rollback-commits", "C08", "C08:R-C08.3:tx::write_tx::BaseTransaction::rollback", TXW,
  """    #[expect(clippy::unused_self)]
    pub(super) fn rollback(self) {}""",
  """    pub(super) fn rollback(self) {
        let _ = OwnedWriteBatch::new(self.db).commit();
    }""")
B("C02-workers-before-replay", "C02", "C02:R-C02.4:db::Database::recover", DB,
  """        // Recover keyspaces
        recover_keyspaces(&db, &meta_keyspace)?;
""",
  """        db.worker_pool.start(
            db.config.worker_threads,
            &db.supervisor,
            &db.stats,
            &PoisonDart::new(db.is_poisoned.clone()),
            &db.active_thread_counter,
        )?;

        // Recover keyspaces
        recover_keyspaces(&db, &meta_keyspace)?;
""")
BREAK[-1]["edits"].append(dict(file=DB, old="""        db.worker_pool.start(
            db.config.worker_threads,
            &db.supervisor,
            &db.stats,
            &PoisonDart::new(db.is_poisoned.clone()),
            &db.active_thread_counter,
        )?;

        log::trace!("Database recovery successful");""", new="""        log::trace!("Database recovery successful");"""))
B("C06-snapshot-at-generator", "C06", "C06:R-C06.3:snapshot_tracker::SnapshotTracker::open", TRACKER,
  """        let _lock = self.gc_lock.read().expect("lock is poisoned");

        let seqno = self.seqno.get();

        self.data
            .entry(seqno)""",
  """        let _lock = self.gc_lock.read().expect("lock is poisoned");

        let seqno = self.seqno.get() + 1;

        self.data
            .entry(seqno)""")
B("C12-meta-row-little-endian", "C12", "C12:R-C12.6:meta_keyspace::MetaKeyspace::resolve_id", "src/meta_keyspace.rs",
  "            builder[1..].copy_from_slice(&id.to_be_bytes());", "            builder[1..].copy_from_slice(&id.to_le_bytes());")
E("EQ-rotate-id-read-under-separate-lock", KS,
  """        let journal_writer = self.supervisor.journal.get_writer()?;
        let active_memtable_id = self.tree.active_memtable().id();
        self.inner_rotate_memtable(journal_writer, active_memtable_id)""",
  """        let active_memtable_id = {
            let _journal_writer = self.supervisor.journal.get_writer()?;
            self.tree.active_memtable().id()
        };
        let journal_writer = self.supervisor.journal.get_writer()?;
        self.inner_rotate_memtable(journal_writer, active_memtable_id)""")
B("C13-batch-check-before-lock", "C13", "C13:R-C13.2:batch::WriteBatch::commit:check-after-lock", BATCH,
  """        log::trace!("batch: Acquiring journal writer");
        let mut journal_writer = self.db.supervisor.journal.get_writer()?;

        // IMPORTANT: Check the poisoned flag after getting journal mutex, otherwise TOCTOU
        if self.db.is_poisoned.is_poisoned() {
            return Err(crate::Error::Poisoned);
        }
""",
  """        if self.db.is_poisoned.is_poisoned() {
            return Err(crate::Error::Poisoned);
        }

        log::trace!("batch: Acquiring journal writer");
        let mut journal_writer = self.db.supervisor.journal.get_writer()?;
""")
B("C03-tx-commit-skips-second-keyspace", "C03", "C03:R-C03.5", TXW,
  """        for (keyspace, memtable) in self.memtables {
            let mut prev_key: Option<UserKey> = None;
""",
  """        for (keyspace, memtable) in self.memtables.into_iter().take(1) {
            let mut prev_key: Option<UserKey> = None;
""")
B("C10-rotate-outside-lock", "C10", "C10:R-C10.3:worker_pool::worker_tick", WP,
  """                let mut journal_writer = ctx.supervisor.journal.get_writer()?;

                if journal_writer.pos()? > 64_000_000 {""",
  """                let too_big = ctx.supervisor.journal.get_writer()?.pos()? > 64_000_000;
                let mut journal_writer = ctx.supervisor.journal.get_writer()?;

                if too_big {""")


# ======================================================================== reverted fixes 7 and 8, third wave
WP = "src/worker_pool.rs"
B("F07-C17-worker-error-keeps-counter", "C17", "C17:R-C17.4:worker_pool::WorkerPool::start::{closure#0}::{closure#0}:worker-decrements-counter-on-failure", WP,
  """                            let _thread_counter = ThreadCounterGuard(thread_counter);

                            loop {
                                match worker_tick(&worker_state) {
                                    Ok(should_abort) => {
                                        if should_abort {
                                            log::debug!(
                                                "Worker #{i} closes because DB is dropping"
                                            );
                                            return Ok(());""",
  """                            loop {
                                match worker_tick(&worker_state) {
                                    Ok(should_abort) => {
                                        if should_abort {
                                            log::debug!(
                                                "Worker #{i} closes because DB is dropping"
                                            );
                                            thread_counter.fetch_sub(1, Relaxed);
                                            return Ok(());""")
B("C17-worker-guard-forgotten", "C17", "C17:R-C17.4:worker_pool::WorkerPool::start::{closure#0}::{closure#0}:worker-decrements-counter", WP,
  """                            let _thread_counter = ThreadCounterGuard(thread_counter);
""",
  """                            std::mem::forget(ThreadCounterGuard(thread_counter));
""")
E2("EQ-worker-explicit-decrements",
   [(WP, """                            let _thread_counter = ThreadCounterGuard(thread_counter);

                            loop {
                                match worker_tick(&worker_state) {
                                    Ok(should_abort) => {
                                        if should_abort {
                                            log::debug!(
                                                "Worker #{i} closes because DB is dropping"
                                            );
                                            return Ok(());""",
     """                            loop {
                                match worker_tick(&worker_state) {
                                    Ok(should_abort) => {
                                        if should_abort {
                                            log::debug!(
                                                "Worker #{i} closes because DB is dropping"
                                            );
                                            thread_counter.fetch_sub(1, Relaxed);
                                            return Ok(());"""),
    (WP, """                                        poison_dart.poison();
                                        return Err(e);""",
     """                                        poison_dart.poison();
                                        thread_counter.fetch_sub(1, Relaxed);
                                        return Err(e);""")], props=["C17", "C13", "C14"])
for _n in ("first_key_value", "last_key_value", "is_empty"):
    B("F08-C06-%s-at-max" % _n, "C06", "C06:R-C06.5:keyspace::Keyspace::%s" % _n, KS,
      "        self.tree.%s(nonce.instant, None)" % _n,
      "        self.tree.%s(SeqNo::MAX, None)" % _n)
B("C06-keyspace-len-at-visible-counter", "C06", "C06:R-C06.5:keyspace::Keyspace::is_empty", KS,
  "        self.tree.is_empty(nonce.instant, None)",
  "        self.tree.is_empty(self.supervisor.seqno.get(), None)")
E("EQ-first-kv-via-iter", KS,
  """        let nonce = self.supervisor.snapshot_tracker.open();
        self.tree.first_key_value(nonce.instant, None).map(Guard)""",
  """        let snapshot = self.supervisor.snapshot_tracker.open();
        let instant = snapshot.instant;
        self.tree.first_key_value(instant, None).map(Guard)""", props=["C05", "C06"])

_PERSIST_MATCH = """        match mode {
            PersistMode::SyncAll => self.file.get_mut().sync_all().inspect_err(|e| {
                log::error!(
                    "Failed to fsync journal file at {}: {e:?}",
                    self.path.display(),
                );
            }),
            PersistMode::SyncData => self.file.get_mut().sync_data().inspect_err(|e| {
                log::error!(
                    "Failed to fsyncdata journal file at {}: {e:?}",
                    self.path.display(),
                );
            }),
            PersistMode::Buffer => Ok(()),
        }
    }
"""
E("EQ-persist-mode-helper-fn", WRITER, _PERSIST_MATCH,
  """        self.sync(mode).inspect_err(|e| {
            log::error!("Failed to sync journal file at {}: {e:?}", self.path.display());
        })
    }

    fn sync(&mut self, mode: PersistMode) -> std::io::Result<()> {
        let file = self.file.get_mut();
        match mode {
            PersistMode::SyncAll => file.sync_all(),
            PersistMode::SyncData => file.sync_data(),
            PersistMode::Buffer => Ok(()),
        }
    }
""", props=["C02", "C09", "C13", "C14"])
B("S2-C13-sync-retry-swallows-eio", "C13", "C13:R-C13.6:journal::writer::Writer::sync", WRITER, _PERSIST_MATCH,
  """        self.sync(mode).inspect_err(|e| {
            log::error!("Failed to sync journal file at {}: {e:?}", self.path.display());
        })
    }

    fn sync(&mut self, mode: PersistMode) -> std::io::Result<()> {
        let file = self.file.get_mut();
        let mut attempts_left = 3;
        loop {
            let result = match mode {
                PersistMode::SyncAll => file.sync_all(),
                PersistMode::SyncData => file.sync_data(),
                PersistMode::Buffer => return Ok(()),
            };
            attempts_left -= 1;
            match result {
                Err(e) if attempts_left > 0 => {
                    log::warn!("sync failed, trying again: {e:?}");
                }
                result => return result,
            }
        }
    }
""")
B("C13-writer-flush-error-ignored", "C13", "C13:R-C13.6:journal::writer::Writer::persist", WRITER,
  """            self.file.flush().inspect_err(|e| {
                log::error!(
                    "Failed to flush journal IO buffers at {}: {e:?}",
                    self.path.display(),
                );
            })?;""",
  """            if let Err(e) = self.file.flush() {
                log::error!(
                    "Failed to flush journal IO buffers at {}: {e:?}",
                    self.path.display(),
                );
            }""")
B("S2-C03-reader-eof-no-truncate", "C03", "C03:R-C03.3:<journal::reader::JournalReader as std::iter::Iterator>::next:raw-none", "src/journal/reader.rs",
  """                        std::io::ErrorKind::UnexpectedEof | std::io::ErrorKind::Other => {""",
  """                        std::io::ErrorKind::UnexpectedEof => None,

                        std::io::ErrorKind::Other => {""")
B("S2-C02-on-close-truncates-to-raw-pos", "C02", "C02:R-C02.7:journal::batch_reader::JournalBatchReader::on_close:truncate_to#1", "src/journal/batch_reader.rs",
  """            // Discard batch
            self.truncate_to(self.last_valid_pos)?;""",
  """            // Discard batch
            self.truncate_to(self.reader.last_valid_pos)?;""")
B("C03-raw-truncate-to-stream-pos", "C03", "C03:R-C03.3:journal::reader::JournalReader::maybe_truncate_file_to_last_valid_pos", "src/journal/reader.rs",
  """        if stream_pos > self.last_valid_pos {
            self.truncate_file(self.last_valid_pos)?;""",
  """        if stream_pos < self.last_valid_pos {
            self.truncate_file(self.last_valid_pos)?;""")

# ======================================================================== R-C05.6 gc arithmetic
B("C05-gc-drops-singly-open-instants", "C05", "C05:R-C05.6:snapshot_tracker::SnapshotTracker::gc::{closure#0}:open-registrations-are-retained", TRACKER,
  "            let should_be_retained = *v > 0 || k >= seqno_threshold;",
  "            let should_be_retained = *v > 1 || k >= seqno_threshold;")
B("C05-gc-lowest-is-max", "C05", "C05:R-C05.6:snapshot_tracker::SnapshotTracker::gc::{closure#0}:lowest-retained-is-running-minimum", TRACKER,
  "                    lo => lo.min(k),",
  "                    lo => lo.max(k),")
B("C05-gc-open-only-counted-when-recent", "C05", "C05:R-C05.6:snapshot_tracker::SnapshotTracker::gc::{closure#0}", TRACKER,
  "            let should_be_retained = *v > 0 || k >= seqno_threshold;",
  "            let should_be_retained = *v > 0 && k >= seqno_threshold;")
B("C05-gc-candidate-only-for-recent", "C05", "C05:R-C05.6:snapshot_tracker::SnapshotTracker::gc::{closure#0}:every-retained-instant-lowers-the-candidate", TRACKER,
  "            if should_be_retained {\n                lowest_retained = match",
  "            if should_be_retained && k >= seqno_threshold {\n                lowest_retained = match")
B("C05-gc-watermark-plus-one", "C05", "C05:R-C05.6:snapshot_tracker::SnapshotTracker::gc:watermark-from-lowest-retained", TRACKER,
  "            lowest_retained.saturating_sub(1),",
  "            lowest_retained.saturating_add(1),")
E("EQ-gc-retain-if-else", TRACKER,
  "            let should_be_retained = *v > 0 || k >= seqno_threshold;",
  "            let should_be_retained = if *v != 0 { true } else { k >= seqno_threshold };", props=["C05", "C07"])

SUP = "src/supervisor.rs"
E("EQ-seqno-map-filter-map", SUP,
  """        let mut seqnos = Vec::with_capacity(keyspaces.len());

        for keyspace in keyspaces.values() {
            if let Some(lsn) = keyspace.tree.get_highest_memtable_seqno() {
                seqnos.push(crate::journal::manager::EvictionWatermark {
                    lsn,
                    keyspace: keyspace.clone(),
                });
            }
        }

        seqnos""",
  """        keyspaces
            .values()
            .filter_map(|keyspace| {
                keyspace.tree.get_highest_memtable_seqno().map(|lsn| {
                    crate::journal::manager::EvictionWatermark {
                        lsn,
                        keyspace: keyspace.clone(),
                    }
                })
            })
            .collect()""", props=["C10", "C02", "C14"])
B("S2-C10-seqno-map-skips-idle-keyspace", "C10", "C10:R-C10.3:supervisor::Supervisor::build_seqno_map:no-keyspace-skipped", SUP,
  """        for keyspace in keyspaces.values() {
            if let Some(lsn)""",
  """        for keyspace in keyspaces.values() {
            if keyspace.tree.active_memtable().is_empty() {
                continue;
            }

            if let Some(lsn)""")

OPTS = "src/keyspace/options.rs"
B("C16-memtable-size-clamped-on-recovery", "C16", "C16:R-C16", OPTS,
  """        let max_memtable_size = (&mut &max_memtable_size[..]).read_u64::<byteorder::LE>()?;""",
  """        let max_memtable_size = (&mut &max_memtable_size[..]).read_u64::<byteorder::LE>()?.min(256 * 1_024 * 1_024);""")
B("C16-separation-threshold-floor-on-recovery", "C16", "C16:R-C16", OPTS,
  """            let separation_threshold = (&mut &separation_threshold[..]).read_u32::<LE>()?;""",
  """            let separation_threshold = (&mut &separation_threshold[..]).read_u32::<LE>()?.max(512);""")
B("C16-memtable-size-written-in-kib", "C16", "C16:R-C16", OPTS,
  """                (key, self.max_memtable_size.to_le_bytes().into())""",
  """                (key, (self.max_memtable_size / 1_024 * 1_024).to_le_bytes().into())""")
B("S3-C16-hash-ratio-clamped-on-decode", "C16", "C16:R-C16.3:keyspace::config::hash_ratio", "src/keyspace/config/hash_ratio.rs",
  """            v.push(bytes.read_f32::<LittleEndian>()?);""",
  """            v.push(bytes.read_f32::<LittleEndian>()?.clamp(0.0, 1.0));""")
B("C16-block-size-rounded-on-encode", "C16", "C16:R-C16.3:keyspace::config::block_size", "src/keyspace/config/block_size.rs",
  """*item""", """(*item).next_power_of_two()""")

# ======================================================================== R-C18.3: a repaired scratch copy must be silent (the rule is a known finding today)
# (the REPAIRED-C18 scratch copy became repair 11; what is left of R-C18.3 — a monotone watermark — has no small repair to mutate in)

# ======================================================================== reverted fix 9 (keyspace id reuse)
B("F09-C12-active-replay-ids-not-reserved", "C12", "C12:R-C12.4:db::Database::recover:replayed-ids-are-never-handed-out-again", DB,
  """                        db.keyspace_id_counter.fetch_max(item.keyspace_id + 1);

""", "")
B("F09-C12-sealed-replay-ids-not-reserved", "C12", "C12:R-C12.4:recovery::recover_sealed_memtables:replayed-ids-are-never-handed-out-again", REC,
  """                db.keyspace_id_counter.fetch_max(item.keyspace_id + 1);

""", "")
B("C12-replay-reserves-id-only-when-known", "C12", "C12:R-C12.4:db::Database::recover:replayed-ids-are-never-handed-out-again", DB,
  """                        db.keyspace_id_counter.fetch_max(item.keyspace_id + 1);

                        let Some(keyspace_name) = db.meta_keyspace.resolve_id(item.keyspace_id)?
                        else {
                            continue;
                        };
""",
  """                        let Some(keyspace_name) = db.meta_keyspace.resolve_id(item.keyspace_id)?
                        else {
                            continue;
                        };

                        db.keyspace_id_counter.fetch_max(item.keyspace_id + 1);
""")
B("C12-replay-reserves-id-without-plus-one", "C12", "C12:R-C12.4:db::Database::recover:replayed-ids-are-never-handed-out-again", DB,
  """                        db.keyspace_id_counter.fetch_max(item.keyspace_id + 1);""",
  """                        db.keyspace_id_counter.fetch_max(item.keyspace_id);""")
E2("EQ-replay-id-reserve-local",
   [(DB, """                        db.keyspace_id_counter.fetch_max(item.keyspace_id + 1);

                        let Some(keyspace_name) = db.meta_keyspace.resolve_id(item.keyspace_id)?""",
     """                        let id = item.keyspace_id;
                        let next_free = id + 1;
                        db.keyspace_id_counter.fetch_max(next_free);

                        let Some(keyspace_name) = db.meta_keyspace.resolve_id(id)?""")], props=["C12", "C04", "C11"])


# ======================================================================== R-C06.6: known findings — one repaired at a time must disappear, an unlocked new site must be reported
RP("REPAIRED-C06-flush-under-journal-lock", "C06", "C06:R-C06.6:flush::worker::run:version-change-flush-excluded-from-in-flight-batches",
   [("src/flush/worker.rs", """    let flush_lock = task.keyspace.tree.get_flush_lock();
""", """    let _journal_lock = task.keyspace.supervisor.journal.get_writer()?;
    let flush_lock = task.keyspace.tree.get_flush_lock();
""")])
RP("REPAIRED-C06-major-compact-under-journal-lock", "C06", "C06:R-C06.6:keyspace::Keyspace::major_compact:version-change-major_compact-excluded-from-in-flight-batches",
   [(KS, """        self.tree.major_compact(
            64_000_000,""", """        let _journal_lock = self.supervisor.journal.get_writer()?;
        self.tree.major_compact(
            64_000_000,""")])

B("C06-ingestion-finish-without-journal-lock", "C06", "C06:R-C06.6:ingestion::Ingestion::<'a>::finish", "src/ingestion.rs",
  "        let _journal_lock = self.keyspace.supervisor.journal.get_writer();\n", "")
B("C06-clear-tree-after-releasing-journal-lock", "C06", "C06:R-C06.6:keyspace::Keyspace::clear", KS,
  """        self.tree.clear().inspect_err(|_| {
            self.is_poisoned.poison();
        })?;

        self.supervisor.snapshot_tracker.publish(seqno);

        drop(journal_writer);
""", """        drop(journal_writer);

        self.tree.clear().inspect_err(|_| {
            self.is_poisoned.poison();
        })?;

        self.supervisor.snapshot_tracker.publish(seqno);
""")

# ======================================================================== reverted fixes 10, 11, 12
B("F10-C11-active-replay-journal-seqnos-not-restored", "C11", "C11:R-C11.1:db::Database::recover:journal-seqnos-restored", DB,
  """                    db.supervisor.seqno.fetch_max(batch.seqno + 1);

""", "")
B("F10-C11-sealed-replay-journal-seqnos-not-restored", "C11", "C11:R-C11.2:recovery::recover_sealed_memtables:journal-seqnos-restored", REC,
  """            db.supervisor.seqno.fetch_max(batch.seqno + 1);

""", "")
B("F11-C04-active-replay-reapplies-persisted-items", "C04", "C04:R-C04.5:db::Database::recover:replay-skips-records-already-persisted", DB,
  """                        if persisted_seqnos.covers(keyspace, batch.seqno) {
                            continue;
                        }

                        match item.value_type {""",
  """                        match item.value_type {""")
B("F11-C04-active-replay-reexecutes-clear", "C04", "C04:R-C04.5:db::Database::recover:replayed-clear-spares-newer-tables", DB,
  """                        if persisted_seqnos.covers(keyspace, batch.seqno) {
                            continue;
                        }

                        keyspace.tree.clear().ok();""",
  """                        keyspace.tree.clear().ok();""")
B("F11-C04-sealed-replay-reapplies-persisted-items", "C04", "C04:R-C04.5:recovery::recover_sealed_memtables:replay-skips-records-already-persisted", REC,
  """                if persisted_seqnos.covers(handle, batch.seqno) {
                    continue;
                }

                match item.value_type {""",
  """                match item.value_type {""")
B("F11-C04-sealed-replay-reexecutes-clear", "C04", "C04:R-C04.5:recovery::recover_sealed_memtables:replayed-clear-spares-newer-tables", REC,
  """                if persisted_seqnos.covers(handle, batch.seqno) {
                    continue;
                }

                handle.tree.clear()""",
  """                handle.tree.clear()""")
B("F12-C11-meta-keyspace-seqnos-not-restored", "C11", "C11:R-C11.1:db::Database::recover:meta-keyspace-seqnos-restored", DB,
  """        seqno.fetch_max(
            meta_tree
                .get_highest_seqno()
                .map(|x| x + 1)
                .unwrap_or_default(),
        );
""", "")
B("C11-meta-restore-without-plus-one", "C11", "C11:R-C11.1:db::Database::recover:meta-keyspace-seqnos-restored", DB,
  """                .get_highest_seqno()
                .map(|x| x + 1)
                .unwrap_or_default(),
        );

        let keyspaces = Arc::new(RwLock::default());""",
  """                .get_highest_seqno()
                .unwrap_or_default(),
        );

        let keyspaces = Arc::new(RwLock::default());""")
E("EQ-replay-guard-inline", DB,
  """                        if persisted_seqnos.covers(keyspace, batch.seqno) {
                            continue;
                        }

                        match item.value_type {""",
  """                        let already_in_tables = persisted_seqnos.covers(keyspace, batch.seqno);
                        if already_in_tables {
                            continue;
                        }

                        match item.value_type {""", props=["C04", "C18", "C11", "C12", "C03"])
B("C04-replay-cache-not-invalidated-by-clear", "C04", "C04:R-C04.5:db::Database::recover:cached-persisted-seqno-forgotten-after-replayed-clear", DB,
  """                        keyspace.tree.clear().ok();

                        persisted_seqnos.forget(keyspace);
""",
  """                        keyspace.tree.clear().ok();
""")
B("C04-sealed-replay-cache-not-invalidated-by-clear", "C04", "C04:R-C04.5:recovery::recover_sealed_memtables:cached-persisted-seqno-forgotten-after-replayed-clear", REC,
  """
                persisted_seqnos.forget(handle);
""", "")

# ======================================================================== equivalent refactors against the round-3 rules
E("EQ-journal-persist-result-local", "src/journal/mod.rs",
  """        let mut journal_writer = self.get_writer()?;
        journal_writer.persist(mode).map_err(Into::into)""",
  """        let mut journal_writer = self.get_writer()?;
        let res = journal_writer.persist(mode);
        drop(journal_writer);
        match res {
            Ok(()) => Ok(()),
            Err(e) => Err(e.into()),
        }""", props=["C02", "C09", "C13", "C14"])
E("EQ-rotate-flush-task-local", KS,
  """        self.supervisor.flush_manager.enqueue(Arc::new(FlushTask {
            keyspace: self.clone(),
        }));

        self.worker_messager.send(WorkerMessage::Flush).ok();""",
  """        let task = Arc::new(FlushTask {
            keyspace: self.clone(),
        });
        self.supervisor.flush_manager.enqueue(task);

        let _ = self.worker_messager.send(WorkerMessage::Flush);""", props=["C14", "C10", "C02", "C04"])
E("EQ-batch-empty-check-on-data", BATCH,
  """        if self.is_empty() {
            return Ok(());
        }

        log::trace!("batch: Acquiring journal writer");""",
  """        if self.data.is_empty() {
            return Ok(());
        }

        log::trace!("batch: Acquiring journal writer");""", props=["C01", "C02", "C03", "C09", "C13"])
E("EQ-keyspace-open-guard-renamed", DB,
  """        let keyspaces = self.supervisor.keyspaces.write().expect("lock is poisoned");

        Ok(if let Some(keyspace) = keyspaces.get(name) {
            keyspace.clone()
        } else {""",
  """        let map = self.supervisor.keyspaces.write().expect("lock is poisoned");
        let keyspaces = map;

        let existing = keyspaces.get(name).cloned();

        Ok(if let Some(keyspace) = existing {
            keyspace
        } else {""", props=["C12", "C16", "C18", "C14"])
B("S4-C12-lookup-under-read-lock", "C12", "C12:R-C12.7:db::Database::keyspace", DB,
  """        let keyspaces = self.supervisor.keyspaces.write().expect("lock is poisoned");

        Ok(if let Some(keyspace) = keyspaces.get(name) {
            keyspace.clone()
        } else {""",
  """        let existing = self.supervisor.keyspaces.read().expect("lock is poisoned").get(name).cloned();

        Ok(if let Some(keyspace) = existing {
            keyspace
        } else {
            let keyspaces = self.supervisor.keyspaces.write().expect("lock is poisoned");
""")
B("S4-C15-decoder-rejects-large-values", "C15", "C15:R-C15.6:journal::entry::Entry::decode_from:no-decoder-only-bounds", "src/journal/entry.rs",
  """                let on_disk_value_len = reader.read_u32::<LittleEndian>()?;
""",
  """                let on_disk_value_len = reader.read_u32::<LittleEndian>()?;

                if u64::from(on_disk_value_len) > 64 * 1_024 * 1_024 {
                    return Err(crate::Error::JournalRecovery(
                        crate::JournalRecoveryError::InsufficientLength,
                    ));
                }
""")
B("S4-C14-flush-task-only-if-queue-empty", "C14", "C14:R-C14.5:keyspace::Keyspace::inner_rotate_memtable", KS,
  """        self.supervisor.flush_manager.enqueue(Arc::new(FlushTask {
            keyspace: self.clone(),
        }));

        self.worker_messager.send(WorkerMessage::Flush).ok();""",
  """        if self.supervisor.flush_manager.len() == 0 {
            self.supervisor.flush_manager.enqueue(Arc::new(FlushTask {
                keyspace: self.clone(),
            }));

            self.worker_messager.send(WorkerMessage::Flush).ok();
        }""")

# ======================================================================== reverted fix 13
B("F13-C13-ingestion-ignores-poison", "C13", "C13:R-C13.7:ingestion::Ingestion::<'a>::finish", "src/ingestion.rs",
  """        if self.keyspace.is_poisoned.is_poisoned() {
            return Err(crate::Error::Poisoned);
        }
""", "")
B("F13-C13-ingestion-lock-result-dropped", "C13", "C13:R-C13.7:ingestion::Ingestion::<'a>::finish", "src/ingestion.rs",
  "        let _journal_lock = self.keyspace.supervisor.journal.get_writer()?;",
  "        let _journal_lock = self.keyspace.supervisor.journal.get_writer();")
B("F13-C13-keyspace-creation-ignores-poison", "C13", "C13:R-C13.7:db::Database::keyspace", DB,
  """            if self.is_poisoned.is_poisoned() {
                return Err(crate::Error::Poisoned);
            }

            let name: KeyspaceKey = name.into();""",
  """            let name: KeyspaceKey = name.into();""")
B("F13-C13-keyspace-deletion-ignores-poison", "C13", "C13:R-C13.7:db::Database::delete_keyspace", DB,
  """        if self.is_poisoned.is_poisoned() {
            return Err(crate::Error::Poisoned);
        }

        self.meta_keyspace.remove_keyspace(&handle.name)?;""",
  """        self.meta_keyspace.remove_keyspace(&handle.name)?;""")


# ======================================================================== refreshed contexts (the repairs 14-23 moved the code under older mutants)
def _override(mid, edits):
    for lst in (BREAK, EQUIV, REPAIR):
        for m in lst:
            if m["id"] == mid:
                m["edits"] = [dict(file=f, old=o, new=n) for f, o, n in edits]
                return
    raise KeyError(mid)


_RM_HEAD = """        // NOTE: Validate before anything reaches the journal (see insert)
        assert!(!key.is_empty(), "key may not be empty");
        assert!(
            u16::try_from(key.len()).is_ok(),
            "Keys can be up to 65535 bytes long"
        );

"""
_override("C13-check-before-lock", [(KS, _RM_HEAD + """        let mut journal_writer = self.supervisor.journal.get_writer()?;

        // IMPORTANT: Check the poisoned flag after getting journal mutex, otherwise TOCTOU
        if self.is_poisoned.is_poisoned() {
            return Err(crate::Error::Poisoned);
        }

        let seqno = self.supervisor.seqno.next();

        journal_writer
            .write_raw(self.id, &key, &[], lsm_tree::ValueType::Tombstone, seqno)""",
                                     _RM_HEAD + """        if self.is_poisoned.is_poisoned() {
            return Err(crate::Error::Poisoned);
        }

        let mut journal_writer = self.supervisor.journal.get_writer()?;

        let seqno = self.supervisor.seqno.next();

        journal_writer
            .write_raw(self.id, &key, &[], lsm_tree::ValueType::Tombstone, seqno)""")])
_override("EQ-journal-lock-helper-fn", [(KS, _RM_HEAD + """        let mut journal_writer = self.supervisor.journal.get_writer()?;

        // IMPORTANT: Check the poisoned flag after getting journal mutex, otherwise TOCTOU
        if self.is_poisoned.is_poisoned() {
            return Err(crate::Error::Poisoned);
        }

        let seqno = self.supervisor.seqno.next();

        journal_writer
            .write_raw(self.id, &key, &[], lsm_tree::ValueType::Tombstone, seqno)""",
                                         _RM_HEAD + """        let mut journal_writer = self.lock_journal()?;

        // IMPORTANT: Check the poisoned flag after getting journal mutex, otherwise TOCTOU
        if self.is_poisoned.is_poisoned() {
            return Err(crate::Error::Poisoned);
        }

        let seqno = self.supervisor.seqno.next();

        journal_writer
            .write_raw(self.id, &key, &[], lsm_tree::ValueType::Tombstone, seqno)"""),
                                        (KS, "    fn check_write_halt(&self) {", """    fn lock_journal(&self) -> crate::Result<MutexGuard<'_, crate::journal::writer::Writer>> {
        self.supervisor.journal.get_writer()
    }

    fn check_write_halt(&self) {""")])
_ING = "src/ingestion.rs"
_ING_TAIL = """            })?;

        self.inner
            .finish()"""
_override("C14-ingest-lock-dropped", [(_ING, _ING_TAIL, """            })?;

        drop(journal_writer);

        self.inner
            .finish()""")])
_override("C06-ingestion-finish-without-journal-lock", [(_ING, _ING_TAIL, """            })?;

        drop(journal_writer);

        self.inner
            .finish()""")])
_override("F13-C13-ingestion-lock-result-dropped", [(_ING, """        let mut journal_writer = self.keyspace.supervisor.journal.get_writer()?;

        // IMPORTANT: Check the poisoned flag after getting journal mutex, otherwise TOCTOU
        if self.keyspace.is_poisoned.is_poisoned() {
            return Err(crate::Error::Poisoned);
        }
""", """        let journal_lock = self.keyspace.supervisor.journal.get_writer();

        // IMPORTANT: Check the poisoned flag after getting journal mutex, otherwise TOCTOU
        if self.keyspace.is_poisoned.is_poisoned() {
            return Err(crate::Error::Poisoned);
        }

        let Ok(mut journal_writer) = journal_lock else {
            return self.inner.finish().map_err(Into::into);
        };
""")])
_override("C12-flag-before-meta-removal", [(DB, """        self.meta_keyspace.remove_keyspace(&handle.name, handle.id)?;

        handle
            .is_deleted
            .store(true, std::sync::atomic::Ordering::Release);
""", """        handle
            .is_deleted
            .store(true, std::sync::atomic::Ordering::Release);

        self.meta_keyspace.remove_keyspace(&handle.name, handle.id)?;
""")])
_override("EQ-delete-keyspace-name-local", [(DB, """        self.meta_keyspace.remove_keyspace(&handle.name, handle.id)?;

        handle
            .is_deleted
            .store(true, std::sync::atomic::Ordering::Release);""", """        let name = handle.name.clone();
        let id = handle.id;
        self.meta_keyspace.remove_keyspace(&name, id)?;

        let flag = &handle.is_deleted;
        flag.store(true, std::sync::atomic::Ordering::Release);""")])
_override("F13-C13-keyspace-deletion-ignores-poison", [(DB, """        if self.is_poisoned.is_poisoned() {
            return Err(crate::Error::Poisoned);
        }

        self.meta_keyspace.remove_keyspace(&handle.name, handle.id)?;""", """        self.meta_keyspace.remove_keyspace(&handle.name, handle.id)?;""")])
_override("C12-replay-skips-resolve", [(DB, """                        let Some(keyspace_name) = db.meta_keyspace.resolve_id(*keyspace_id)? else {
                            continue;
                        };

                        let Some(keyspace) = keyspaces.get(&keyspace_name) else {
                            continue;
                        };

                        // NOTE: Tables newer than the clear""", """                        let Some(keyspace) = keyspaces.values().find(|k| k.id == *keyspace_id) else {
                            continue;
                        };

                        // NOTE: Tables newer than the clear""")])
_override("C04-active-replay-no-clear", [(DB, """                        keyspace.tree.clear().ok();

                        persisted_seqnos.forget(keyspace);""", """                        persisted_seqnos.forget(keyspace);""")])
_override("C04-replay-wrong-seqno", [(REC, """                    lsm_tree::ValueType::Value => {
                        tree.insert(item.key, item.value, batch.seqno);
                    }""", """                    lsm_tree::ValueType::Value => {
                        tree.insert(item.key, item.value, db.supervisor.seqno.next());
                    }""")])
_override("C16-options-applied-to-existing", [(DB, """        let keyspaces = self.supervisor.keyspaces.write().expect("lock is poisoned");

        Ok(if let Some(keyspace) = keyspaces.get(name) {
            keyspace.clone()
        } else {
            if self.is_poisoned.is_poisoned() {
                return Err(crate::Error::Poisoned);
            }

            let name: KeyspaceKey = name.into();

            let keyspace_id = self.keyspace_id_counter.next();

            let mut opts = create_options();
""", """        let keyspaces = self.supervisor.keyspaces.write().expect("lock is poisoned");
        let mut opts = create_options();

        Ok(if let Some(keyspace) = keyspaces.get(name) {
            keyspace.clone()
        } else {
            if self.is_poisoned.is_poisoned() {
                return Err(crate::Error::Poisoned);
            }

            let name: KeyspaceKey = name.into();

            let keyspace_id = self.keyspace_id_counter.next();
""")])
_override("S07-C06-visible-counter-aliases-generator", [(DB, """    pub fn recover(config: Config) -> crate::Result<Self> {""", """    pub fn recover(config: Config) -> crate::Result<Self> {
        // (seed S07, ported) the visible counter is an alias of the generator"""),
                                                         (DB, """        let seqno = SequenceNumberCounter::default();
        let visible_seqno = SequenceNumberCounter::default();

        let meta_tree = lsm_tree::Config::new(
            config.path.join(KEYSPACES_FOLDER).join("0"),
            seqno.clone(),
            visible_seqno.clone(),
        )
        .use_cache(config.cache.clone())
        .use_descriptor_table(config.descriptor_table.clone())
        .expect_point_read_hits(true)
        .data_block_size_policy(crate::config::BlockSizePolicy::all(4_096))
        .data_block_hash_ratio_policy(crate::config::HashRatioPolicy::all(8.0))
        .data_block_compression_policy(crate::config::CompressionPolicy::disabled())
        .data_block_restart_interval_policy(crate::config::RestartIntervalPolicy::all(1))
        .index_block_compression_policy(crate::config::CompressionPolicy::disabled())
        .filter_policy(crate::config::FilterPolicy::new([
            lsm_tree::config::FilterPolicyEntry::Bloom(
                lsm_tree::config::BloomConstructionPolicy::FalsePositiveRate(0.0001),
            ),
            lsm_tree::config::FilterPolicyEntry::Bloom(
                lsm_tree::config::BloomConstructionPolicy::FalsePositiveRate(0.01),
            ),
        ]))
        .open()?;

        // NOTE: The meta keyspace is written""", """        let seqno = SequenceNumberCounter::default();
        let visible_seqno = seqno.clone();

        let meta_tree = lsm_tree::Config::new(
            config.path.join(KEYSPACES_FOLDER).join("0"),
            seqno.clone(),
            visible_seqno.clone(),
        )
        .use_cache(config.cache.clone())
        .use_descriptor_table(config.descriptor_table.clone())
        .expect_point_read_hits(true)
        .data_block_size_policy(crate::config::BlockSizePolicy::all(4_096))
        .data_block_hash_ratio_policy(crate::config::HashRatioPolicy::all(8.0))
        .data_block_compression_policy(crate::config::CompressionPolicy::disabled())
        .data_block_restart_interval_policy(crate::config::RestartIntervalPolicy::all(1))
        .index_block_compression_policy(crate::config::CompressionPolicy::disabled())
        .filter_policy(crate::config::FilterPolicy::new([
            lsm_tree::config::FilterPolicyEntry::Bloom(
                lsm_tree::config::BloomConstructionPolicy::FalsePositiveRate(0.0001),
            ),
            lsm_tree::config::FilterPolicyEntry::Bloom(
                lsm_tree::config::BloomConstructionPolicy::FalsePositiveRate(0.01),
            ),
        ]))
        .open()?;

        // NOTE: The meta keyspace is written""")])
_WK_NEW_HEAD = """                            let _thread_counter = ThreadCounterGuard(thread_counter);
                            let worker_state = worker_state;
                            let poison_dart = poison_dart;

                            loop {
                                match worker_tick(&worker_state) {
                                    Ok(should_abort) => {
                                        if should_abort {
                                            log::debug!(
                                                "Worker #{i} closes because DB is dropping"
                                            );
                                            return Ok(());"""
_WK_EXPLICIT = """                            let worker_state = worker_state;
                            let poison_dart = poison_dart;

                            loop {
                                match worker_tick(&worker_state) {
                                    Ok(should_abort) => {
                                        if should_abort {
                                            log::debug!(
                                                "Worker #{i} closes because DB is dropping"
                                            );
                                            drop(worker_state);
                                            drop(poison_dart);
                                            thread_counter.fetch_sub(1, Relaxed);
                                            return Ok(());"""
_override("F07-C17-worker-error-keeps-counter", [(WP, _WK_NEW_HEAD, _WK_EXPLICIT)])
_override("EQ-worker-explicit-decrements", [(WP, _WK_NEW_HEAD, _WK_EXPLICIT),
                                            (WP, """                                        poison_dart.poison();
                                        return Err(e);""", """                                        poison_dart.poison();
                                        drop(worker_state);
                                        drop(poison_dart);
                                        thread_counter.fetch_sub(1, Relaxed);
                                        return Err(e);""")])
_override("C05-gc-lowest-is-max", [(TRACKER, "                lowest_retained = Some(lowest_retained.map_or(k, |lo| lo.min(k)));",
                                    "                lowest_retained = Some(lowest_retained.map_or(k, |lo| lo.max(k)));")])
_override("C05-gc-candidate-only-for-recent", [(TRACKER, """            if should_be_retained {
                lowest_retained = Some(""", """            if should_be_retained && k >= seqno_threshold {
                lowest_retained = Some(""")])
_override("EQ-batch-empty-check-on-data", [(BATCH, """        if self.is_empty() {
            // NOTE: Even without items""", """        if self.data.is_empty() {
            // NOTE: Even without items""")])
B2("F14-C05-gc-zero-sentinel", "C05", "C05:R-C05.6:snapshot_tracker::SnapshotTracker::gc::{closure#0}:lowest-retained-has-no-in-band-sentinel",
   [(TRACKER, """        let mut lowest_retained: Option<SeqNo> = None;""", """        let mut lowest_retained = 0;
        let mut none_retained = true;"""),
    (TRACKER, """                lowest_retained = Some(lowest_retained.map_or(k, |lo| lo.min(k)));""", """                lowest_retained = match lowest_retained {
                    0 => k,
                    lo => lo.min(k),
                };
                none_retained = false;"""),
    (TRACKER, """        let lowest_retained = lowest_retained.unwrap_or(seqno_threshold);""", """        if none_retained {
            lowest_retained = seqno_threshold;
        }""")])

# ======================================================================== reverted fixes 15-23
OKS = "src/tx/optimistic/keyspace.rs"
for _n in ("get", "size_of", "contains_key"):
    B("F15-C07-optimistic-%s-reads-latest" % _n, "C07", "C07:R-C07.8:tx::optimistic::keyspace::OptimisticTxKeyspace::%s" % _n, OKS,
      "        let read_tx = self.db.read_tx();\n        read_tx.%s(self, key)\n" % _n, "        self.inner.%s(key)\n" % _n)
B("F16-C03-ingestion-does-not-flush-journal-buffer", "C03", "C03:R-C03.8:ingestion::Ingestion::<'a>::finish:journal-buffer-flushed", _ING,
  """        journal_writer
            .persist(crate::PersistMode::Buffer)
            .inspect_err(|e| {
                log::error!("persist failed, which is a FATAL, and possibly hardware-related, failure: {e:?}");
                self.keyspace.is_poisoned.poison();
            })?;
""", """        let _ = &mut journal_writer;
""")
B("F17-C02-insert-key-not-validated", "C02", "C02:R-C02.8:keyspace::Keyspace::insert", KS,
  """        assert!(!key.is_empty(), "key may not be empty");
        assert!(
            u16::try_from(key.len()).is_ok(),
            "Keys can be up to 65535 bytes long"
        );
        assert!(
            u32::try_from(value.len()).is_ok(),""", """        assert!(
            u32::try_from(value.len()).is_ok(),""")
B("C02-insert-key-validated-after-append", "C02", "C02:R-C02.8:keyspace::Keyspace::insert", KS,
  """        assert!(!key.is_empty(), "key may not be empty");
        assert!(
            u16::try_from(key.len()).is_ok(),
            "Keys can be up to 65535 bytes long"
        );
        assert!(
            u32::try_from(value.len()).is_ok(),
            "Values can be up to 2^32 bytes long"
        );

        let mut journal_writer = self.supervisor.journal.get_writer()?;
""", """        let mut journal_writer = self.supervisor.journal.get_writer()?;

        assert!(!key.is_empty(), "key may not be empty");
        assert!(
            u16::try_from(key.len()).is_ok(),
            "Keys can be up to 65535 bytes long"
        );
        assert!(
            u32::try_from(value.len()).is_ok(),
            "Values can be up to 2^32 bytes long"
        );
""")
B("F18-C09-empty-batch-skips-sync", "C09", "C09:R-C09.8:batch::WriteBatch::commit", BATCH,
  """            if let Some(mode @ (crate::PersistMode::SyncData | crate::PersistMode::SyncAll)) =
                self.durability
            {
                self.db.persist(mode)?;
            }

""", "")
B("F18-C09-optimistic-read-only-shortcut", "C09", "C09:R-C09.8:tx::optimistic::write_tx::WriteTransaction::commit", "src/tx/optimistic/write_tx.rs",
  """            self.inner.commit()?;
            return Ok(Ok(()));""", """            return Ok(Ok(()));""")
B("F19-C10-empty-memtables-still-pin-journal", "C10", "C10:R-C10.6:journal::manager::JournalManager::maintenance", "src/journal/manager.rs",
  """                    if item.keyspace.tree.get_highest_memtable_seqno().is_none() {
                        continue;
                    }

""", "")
B("C10-nonempty-memtables-release-journal", "C10", "C10:R-C10.1:journal::manager::JournalManager::maintenance", "src/journal/manager.rs",
  """                    if item.keyspace.tree.get_highest_memtable_seqno().is_none() {
                        continue;
                    }""", """                    if item.keyspace.tree.get_highest_memtable_seqno().is_some() {
                        continue;
                    }""")
B("F20-C12-remove-keyspace-ignores-id", "C12", "C12:R-C12.8:meta_keyspace::MetaKeyspace::remove_keyspace", "src/meta_keyspace.rs",
  """        if keyspace.id != id {
            return Ok(());
        }
""", """        let _ = id;
""")
B("F21-C12-keyspace-eq-by-name", "C12", "C12:R-C12.8:<keyspace::Keyspace as std::cmp::PartialEq>::eq", KS,
  "        self.id == other.id", "        self.name == other.name")
B("F21-C12-keyspace-hash-by-name", "C12", "C12:R-C12.8:<keyspace::Keyspace as std::hash::Hash>::hash", KS,
  "        state.write_u64(self.id);", "        state.write(self.name.as_bytes());")
B("F22-C12-deleted-watermarks-kept", "C12", "C12:R-C12.9:journal::manager::JournalManager::maintenance", "src/journal/manager.rs",
  """        for item in &mut self.items {
            item.watermarks.retain(|watermark| {
                !watermark
                    .keyspace
                    .is_deleted
                    .load(std::sync::atomic::Ordering::Acquire)
            });
        }
""", "")
B("F23-C17-worker-state-dropped-after-counter", "C17", "C17:R-C17.4:worker_pool::WorkerPool::start::{closure#0}::{closure#0}:worker-releases-its-state", WP,
  """                            let _thread_counter = ThreadCounterGuard(thread_counter);
                            let worker_state = worker_state;
                            let poison_dart = poison_dart;
""", """                            let _thread_counter = ThreadCounterGuard(thread_counter);
""")

# ---- reverted fixes 24-28
_FM = "src/flush/manager.rs"
B2("F24-C17-keyspace-holds-strong-worker-sender", "C17", "C17:R-C17.5:keyspace::KeyspaceInner:strong-sender-worker_messager", [
    (KS, "    pub(crate) worker_messager: flume::WeakSender<WorkerMessage>,", "    pub(crate) worker_messager: flume::Sender<WorkerMessage>,"),
    (KS, "            worker_messager: db.worker_pool.sender.downgrade(),", "            worker_messager: db.worker_pool.sender.clone(),", {"all": True}),
    (KS, """        if let Some(sender) = self.worker_messager.upgrade() {
            sender.send(WorkerMessage::Flush).ok();
        }""", """        self.worker_messager.send(WorkerMessage::Flush).ok();"""),
    (KS, """        if let Some(sender) = self.worker_messager.upgrade() {
            sender
                .try_send(WorkerMessage::RotateMemtable(
                    self.clone(),
                    active_memtable.id(),
                ))
                .ok();
        }""", """        self.worker_messager
            .try_send(WorkerMessage::RotateMemtable(
                self.clone(),
                active_memtable.id(),
            ))
            .ok();"""),
    (KS, """            let Some(sender) = self.worker_messager.upgrade() else {
                // NOTE: The database (and its workers) is gone, only this handle is left
                return;
            };
            sender.try_send(WorkerMessage::Compact(self.clone())).ok();
""", """            self.worker_messager
                .try_send(WorkerMessage::Compact(self.clone()))
                .ok();
"""),
    (KS, """            && self.worker_messager.upgrade().is_some()
""", ""),
    (_ING, """                if let Some(sender) = self.keyspace.worker_messager.upgrade() {
                    sender
                        .try_send(WorkerMessage::Compact(self.keyspace.clone()))
                        .ok();
                }""", """                self.keyspace
                    .worker_messager
                    .try_send(WorkerMessage::Compact(self.keyspace.clone()))
                    .ok();"""),
])
B("F24-C17-flush-manager-accepts-after-clear", "C17", "C17:R-C17.5:flush::manager::FlushManager::enqueue:refuses-after-clear", _FM,
  """        if self.is_closed.load(std::sync::atomic::Ordering::Acquire) {
            return;
        }

        self.sender.send(task).ok();""", """        self.sender.send(task).ok();""")
B("F24-C17-flush-manager-no-recheck-after-send", "C17", "C17:R-C17.5:flush::manager::FlushManager::enqueue:refuses-after-clear", _FM,
  """        // NOTE: Closed in the meantime: nobody will dequeue the task anymore
        if self.is_closed.load(std::sync::atomic::Ordering::Acquire) {
            let _ = self.receiver.drain().count();
        }
""", "")
B("F24-C17-flush-manager-clear-does-not-close", "C17", "C17:R-C17.5:flush::manager::FlushManager::clear:clear-closes-before-draining", _FM,
  """        self.is_closed
            .store(true, std::sync::atomic::Ordering::Release);

        let _ = self.receiver.drain().count();""", """        let _ = self.receiver.drain().count();""")
B("F25-C17-populated-folder-reinitialised", "C17", "C17:R-C17.6:db::Database::create_or_recover:populated-folder-without-marker-is-not-initialised", DB,
  """            if Self::holds_database_files(&config.path)? {
                return Err(crate::Error::InvalidVersion(None));
            }
""", """            if Self::holds_database_files(&config.path)? {
                log::warn!("version marker missing");
            }
""")
B("F25-C17-journals-not-counted-as-database-files", "C17", "C17:R-C17.6:db::Database::holds_database_files:recognises-lock-keyspaces-and-journals", DB,
  "            if is_journal || name == KEYSPACES_FOLDER || name == LOCK_FILE {", "            let _ = is_journal;\n            if name == KEYSPACES_FOLDER || name == LOCK_FILE {")
B("F26-C18-callers-factory-survives", "C18", "C18:R-C18.4:db::Database::keyspace:callers-factory-is-dropped", DB,
  "            opts.compaction_filter_factory = None;\n", "")
B("F27-C13-worker-rotation-failure-poisons-late", "C13", "C13:R-C13.8:worker_pool::worker_tick:rotate_journal#1-poisons-before-the-journal-lock-is-released", WP,
  """                    journal_manager
                        .rotate_journal(&mut journal_writer, seqno_map)
                        .inspect_err(|_| ctx.poison_dart.poison())?;""", """                    journal_manager.rotate_journal(&mut journal_writer, seqno_map)?;""")
B("F27-C13-worker-pos-failure-poisons-late", "C13", "C13:R-C13.8:worker_pool::worker_tick:pos#1-poisons-before-the-journal-lock-is-released", WP,
  """                let journal_pos = journal_writer
                    .pos()
                    .inspect_err(|_| ctx.poison_dart.poison())?;""", """                let journal_pos = journal_writer.pos()?;""")
B("F27-C13-db-persist-checks-flag-before-lock", "C13", "C13:R-C13.8:db::Database::persist:flag-checked-under-the-journal-lock", DB,
  """        let mut journal_writer = self.supervisor.journal.get_writer()?;

        // IMPORTANT: Check (and set) the poisoned flag after getting journal mutex, otherwise TOCTOU
        if self.is_poisoned.is_poisoned() {
            return Err(crate::Error::Poisoned);
        }
""", """        if self.is_poisoned.is_poisoned() {
            return Err(crate::Error::Poisoned);
        }

        let mut journal_writer = self.supervisor.journal.get_writer()?;
""")
B("F27-C13-db-persist-poisons-after-unlock", "C13", "C13:R-C13.8:db::Database::persist:persist#1-poisons-before-the-journal-lock-is-released", DB,
  """        if let Err(e) = journal_writer.persist(mode) {
            self.is_poisoned.poison();
""", """        let res = journal_writer.persist(mode);
        drop(journal_writer);
        if let Err(e) = res {
            self.is_poisoned.poison();
""")
B("F28-C02-with-capacity-durability-none", "C02", "C02:R-C02.9:batch::WriteBatch::with_capacity", BATCH,
  """        let durability = if db.config.manual_journal_persist {
            None
        } else {
            Some(PersistMode::Buffer)
        };

        Self {
            data: Vec::with_capacity(capacity),
            db,
            durability,
        }""", """        Self {
            data: Vec::with_capacity(capacity),
            db,
            durability: None,
        }""")
B("C02-db-batch-default-inverted", "C02", "C02:R-C02.9:db::Database::batch", DB,
  "        if !self.config.manual_journal_persist {\n            batch = batch.durability(Some(PersistMode::Buffer));", "        if self.config.manual_journal_persist {\n            batch = batch.durability(Some(PersistMode::Buffer));")
B("C02-optimistic-write-tx-no-default-durability", "C02", "C02:R-C02.9:tx::optimistic::OptimisticTxDatabase::write_tx", "src/tx/optimistic/mod.rs",
  """        if !self.inner.config.manual_journal_persist {
            write_tx = write_tx.durability(Some(PersistMode::Buffer));
        }
""", """        if !self.inner.config.manual_journal_persist {
            write_tx = write_tx.durability(None);
        }
""")
E(  "EQ-with-capacity-delegates-to-batch-default", BATCH, """        let durability = if db.config.manual_journal_persist {
            None
        } else {
            Some(PersistMode::Buffer)
        };

        Self {
            data: Vec::with_capacity(capacity),
            db,
            durability,
        }""", """        let mut durability = Some(PersistMode::Buffer);
        if db.config.manual_journal_persist {
            durability = None;
        }

        Self {
            data: Vec::with_capacity(capacity),
            db,
            durability,
        }""", props=["C02", "C09"])
E("EQ-worker-rotation-poisons-in-match", WP, """                    journal_manager
                        .rotate_journal(&mut journal_writer, seqno_map)
                        .inspect_err(|_| ctx.poison_dart.poison())?;""", """                    if let Err(e) = journal_manager.rotate_journal(&mut journal_writer, seqno_map) {
                        ctx.poison_dart.poison();
                        return Err(e);
                    }""", props=["C13", "C14", "C03"])
E("EQ-flush-manager-closed-check-in-helper", _FM, """    pub fn enqueue(&self, task: Arc<Task>) {
        if self.is_closed.load(std::sync::atomic::Ordering::Acquire) {
            return;
        }
""", """    pub fn enqueue(&self, task: Arc<Task>) {
        let closed = self.is_closed.load(std::sync::atomic::Ordering::Acquire);
        if closed {
            return;
        }
""", props=["C17", "C14"])
E("EQ-factory-cleared-with-take", DB, "            opts.compaction_filter_factory = None;\n", "            opts.compaction_filter_factory = Option::None;\n", props=["C18"])

# ---- contexts refreshed after repairs 24-32
_DBP_ERR = """        if let Err(e) = journal_writer.persist(mode) {
            self.is_poisoned.poison();

            log::error!("""
_override("C13-db-persist-swallow", [(DB, _DBP_ERR, """        if let Err(e) = journal_writer.persist(mode) {
            log::error!(""")])
_override("C13-worker-error-no-poison", [(WP, """                                        poison_dart.poison();
                                        log::error!("Worker #{i} crashed: {e:?}");
                                        return Err(e);""", """                                        let _ = &poison_dart;
                                        log::error!("Worker #{i} crashed: {e:?}");
                                        return Err(e);"""),
                                         (WP, """                    journal_manager
                        .rotate_journal(&mut journal_writer, seqno_map)
                        .inspect_err(|_| ctx.poison_dart.poison())?;""", """                    journal_manager.rotate_journal(&mut journal_writer, seqno_map)?;""")])
_ROT_TAIL = """        drop(journal_writer);

        self.supervisor.flush_manager.enqueue(Arc::new(FlushTask {
            keyspace: self.clone(),
        }));

        if let Some(sender) = self.worker_messager.upgrade() {
            sender.send(WorkerMessage::Flush).ok();
        }
"""
_override("C14-rotate-drop-late", [(KS, _ROT_TAIL, """        self.supervisor.flush_manager.enqueue(Arc::new(FlushTask {
            keyspace: self.clone(),
        }));

        if let Some(sender) = self.worker_messager.upgrade() {
            sender.send(WorkerMessage::Flush).ok();
        }

        drop(journal_writer);
""")])
_override("C09-db-persist-downgrades", [(DB, "        if let Err(e) = journal_writer.persist(mode) {", """        let mode = if mode == PersistMode::SyncAll { PersistMode::SyncData } else { mode };
        if let Err(e) = journal_writer.persist(mode) {""")])
_WT_ROT = """                    let seqno_map = {
                        #[expect(clippy::expect_used)]
                        let keyspaces = ctx.supervisor.keyspaces.write().expect("lock is poisoned");

                        ctx.supervisor.build_seqno_map(&keyspaces)
                    };

                    journal_manager
                        .rotate_journal(&mut journal_writer, seqno_map)
                        .inspect_err(|_| ctx.poison_dart.poison())?;"""
_override("C10-seqno-map-after-rotate", [(WP, _WT_ROT, """                    journal_manager
                        .rotate_journal(&mut journal_writer, Vec::new())
                        .inspect_err(|_| ctx.poison_dart.poison())?;
                    let _seqno_map = {
                        #[expect(clippy::expect_used)]
                        let keyspaces = ctx.supervisor.keyspaces.write().expect("lock is poisoned");

                        ctx.supervisor.build_seqno_map(&keyspaces)
                    };""")])
_override("C10-rotate-outside-lock", [(WP, """                let mut journal_writer = ctx.supervisor.journal.get_writer()?;

                // IMPORTANT: A journal failure has to poison the database while the journal lock is still held,
                // otherwise writers are still acknowledged until the worker loop gets around to poisoning
                let journal_pos = journal_writer
                    .pos()
                    .inspect_err(|_| ctx.poison_dart.poison())?;
""", """                let journal_pos = ctx
                    .supervisor
                    .journal
                    .get_writer()?
                    .pos()
                    .inspect_err(|_| ctx.poison_dart.poison())?;
                let mut journal_writer = ctx.supervisor.journal.get_writer()?;
""")])
_ENQ = """        self.supervisor.flush_manager.enqueue(Arc::new(FlushTask {
            keyspace: self.clone(),
        }));

        if let Some(sender) = self.worker_messager.upgrade() {
            sender.send(WorkerMessage::Flush).ok();
        }
"""
_override("S4-C14-flush-task-only-if-queue-empty", [(KS, _ENQ, """        if self.supervisor.flush_manager.len() == 0 {
            self.supervisor.flush_manager.enqueue(Arc::new(FlushTask {
                keyspace: self.clone(),
            }));

            if let Some(sender) = self.worker_messager.upgrade() {
                sender.send(WorkerMessage::Flush).ok();
            }
        }
""")])
_override("EQ-rotate-flush-task-local", [(KS, _ENQ, """        let task = Arc::new(FlushTask {
            keyspace: self.clone(),
        });
        self.supervisor.flush_manager.enqueue(task);

        if let Some(sender) = self.worker_messager.upgrade() {
            let _ = sender.send(WorkerMessage::Flush);
        }
""")])
_WK_HEAD2 = """                            let _thread_counter = ThreadCounterGuard(thread_counter);
                            let worker_state = worker_state;
                            let poison_dart = poison_dart;

                            loop {
                                match worker_tick(&worker_state) {
                                    Ok(should_abort) => {
                                        if should_abort {
                                            log::debug!(
                                                "Worker #{i} closes because DB is dropping"
                                            );
                                            return Ok(());"""
_override("EQ-worker-explicit-decrements", [(WP, _WK_HEAD2, """                            let worker_state = worker_state;
                            let poison_dart = poison_dart;

                            loop {
                                match worker_tick(&worker_state) {
                                    Ok(should_abort) => {
                                        if should_abort {
                                            log::debug!(
                                                "Worker #{i} closes because DB is dropping"
                                            );
                                            drop(worker_state);
                                            drop(poison_dart);
                                            thread_counter.fetch_sub(1, Relaxed);
                                            return Ok(());"""),
                                            (WP, """                                        poison_dart.poison();
                                        log::error!("Worker #{i} crashed: {e:?}");
                                        return Err(e);""", """                                        poison_dart.poison();
                                        log::error!("Worker #{i} crashed: {e:?}");
                                        drop(worker_state);
                                        drop(poison_dart);
                                        thread_counter.fetch_sub(1, Relaxed);
                                        return Err(e);""")])

# ---- reverted fixes 29-32
B("F29-C04-remove-weak-applies-strong-tombstone", "C04", "C04:R-C04.7:keyspace::Keyspace::remove_weak", KS,
  "        let (item_size, memtable_size) = self.tree.remove_weak(key, seqno);", "        let (item_size, memtable_size) = self.tree.remove(key, seqno);")
B("F29-C01-remove-weak-applies-strong-tombstone", "C01", "C01:R-C01.1:keyspace::Keyspace::remove_weak", KS,
  "        let (item_size, memtable_size) = self.tree.remove_weak(key, seqno);", "        let (item_size, memtable_size) = self.tree.remove(key, seqno);")
_SEAL = """        let mut journal_writer = journal_writer;
        journal_writer
            .persist(crate::PersistMode::Buffer)
            .inspect_err(|_| self.is_poisoned.poison())?;
"""
B("F30-C03-seal-without-writing-out-the-journal-buffer", "C03", "C03:R-C03.9:keyspace::Keyspace::inner_rotate_memtable", KS, _SEAL, "")
B("C03-journal-buffer-written-out-after-sealing", "C03", "C03:R-C03.9:keyspace::Keyspace::inner_rotate_memtable", KS,
  _SEAL + """
        // Rotate memtable
        let Some(_) = self.tree.rotate_memtable() else {
            log::debug!("Got no sealed memtable, someone beat us to it");
            return Ok(false);
        };
""", """
        // Rotate memtable
        let Some(_) = self.tree.rotate_memtable() else {
            log::debug!("Got no sealed memtable, someone beat us to it");
            return Ok(false);
        };
""" + _SEAL)
B("C13-seal-persist-failure-does-not-poison", "C13", "C13:R-C13.8:keyspace::Keyspace::inner_rotate_memtable", KS, _SEAL,
  """        let mut journal_writer = journal_writer;
        journal_writer.persist(crate::PersistMode::Buffer)?;
""")
B("F31-C14-get-reads-at-max", "C14", "C14:R-C14.6:keyspace::Keyspace::get", KS,
  """        let nonce = self.supervisor.snapshot_tracker.open();
        Ok(self.tree.get(key, nonce.instant)?)""", """        Ok(self.tree.get(key, lsm_tree::SeqNo::MAX)?)""")
B("F31-C14-contains-key-reads-at-max", "C14", "C14:R-C14.6:keyspace::Keyspace::contains_key", KS,
  """        let nonce = self.supervisor.snapshot_tracker.open();
        self.tree
            .contains_key(key, nonce.instant)
            .map_err(Into::into)""", """        self.tree.contains_key(key, lsm_tree::SeqNo::MAX).map_err(Into::into)""")
B("C14-size-of-reads-at-seqno-counter", "C14", "C14:R-C14.6:keyspace::Keyspace::size_of", KS,
  """        let nonce = self.supervisor.snapshot_tracker.open();
        Ok(self.tree.size_of(key, nonce.instant)?)""", """        Ok(self.tree.size_of(key, self.supervisor.seqno.get())?)""")
_HALT = """            if let Some(sender) = self.worker_messager.upgrade() {
                sender.try_send(WorkerMessage::Compact(self.clone())).ok();
            }

            std::thread::sleep(Duration::from_millis(10));"""
B("F32-C14-write-halt-only-sleeps", "C14", "C14:R-C14.7:keyspace::Keyspace::check_write_halt", KS, _HALT,
  "            std::thread::sleep(Duration::from_millis(10));")
B("C14-write-halt-nudges-once-before-the-loop", "C14", "C14:R-C14.7:keyspace::Keyspace::check_write_halt", KS,
  """        while self.tree.l0_run_count() >= 30 {
            // NOTE: Ask for the compaction we are waiting for: compaction requests are only sent after a flush,
            // and all of them may have been consumed (and declined) while another compaction was still running
            if let Some(sender) = self.worker_messager.upgrade() {
                sender.try_send(WorkerMessage::Compact(self.clone())).ok();
            }

            std::thread::sleep(Duration::from_millis(10));
        }""", """        if let Some(sender) = self.worker_messager.upgrade() {
            sender.try_send(WorkerMessage::Compact(self.clone())).ok();
        }
        while self.tree.l0_run_count() >= 30 {
            std::thread::sleep(Duration::from_millis(10));
        }""")
E("EQ-write-halt-sender-upgraded-once", KS, """        while self.tree.l0_run_count() >= 30 {
            // NOTE: Ask for the compaction we are waiting for: compaction requests are only sent after a flush,
            // and all of them may have been consumed (and declined) while another compaction was still running
            if let Some(sender) = self.worker_messager.upgrade() {
                sender.try_send(WorkerMessage::Compact(self.clone())).ok();
            }

            std::thread::sleep(Duration::from_millis(10));
        }""", """        while self.tree.l0_run_count() >= 30 {
            match self.worker_messager.upgrade() {
                Some(sender) => {
                    let _ = sender.try_send(WorkerMessage::Compact(self.clone()));
                }
                None => {}
            }

            std::thread::sleep(Duration::from_millis(10));
        }""", props=["C14", "C17"])
E("EQ-get-nonce-bound-to-instant-local", KS, """        let nonce = self.supervisor.snapshot_tracker.open();
        Ok(self.tree.get(key, nonce.instant)?)""", """        let nonce = self.supervisor.snapshot_tracker.open();
        let instant = nonce.instant;
        let item = self.tree.get(key, instant)?;
        Ok(item)""", props=["C14", "C05", "C06", "C01"])
E("EQ-seal-persist-in-match", KS, _SEAL, """        let mut journal_writer = journal_writer;
        if let Err(e) = journal_writer.persist(crate::PersistMode::Buffer) {
            self.is_poisoned.poison();
            return Err(e.into());
        }
""", props=["C03", "C13", "C14", "C02"])

# ---- repair 33 reverted; round-5 gap rules
B("F33-C17-markerless-folder-refused-without-lock-probe", "C17", "C17:R-C17.6:db::Database::create_or_recover:held-lock-reported", DB,
  """                if lock_path.try_exists()? {
                    LockedFileGuard::try_acquire(&lock_path)?;
                }
""", """                let _ = lock_path;
""")
B("C17-lock-probe-result-ignored", "C17", "C17:R-C17.6:db::Database::create_or_recover:held-lock-reported", DB,
  "                    LockedFileGuard::try_acquire(&lock_path)?;", "                    LockedFileGuard::try_acquire(&lock_path).ok();")
B("C04-replay-guard-wider-than-persisted", "C04", "C04:R-C04.5:db::Database::recover:replay-guard-skips-exactly", "src/recovery.rs",
  "            .is_some_and(|persisted| seqno <= persisted)", "            .is_some_and(|persisted| seqno <= persisted + 1)")
B("C02-replay-guard-inverted", "C02", "C02:R-C02.13", "src/recovery.rs",
  "            .is_some_and(|persisted| seqno <= persisted)", "            .is_some_and(|persisted| seqno >= persisted)")
E("EQ-replay-guard-as-not-greater", "src/recovery.rs", "            .is_some_and(|persisted| seqno <= persisted)", "            .is_some_and(|persisted| !(seqno > persisted))", props=["C04", "C18", "C02"])
E("EQ-replay-guard-flipped-operands", "src/recovery.rs", "            .is_some_and(|persisted| seqno <= persisted)", "            .is_some_and(|persisted| persisted >= seqno)", props=["C04", "C18", "C02"])
B("C03-batch-reader-reverses-items", "C03", "C03:R-C03.12", "src/journal/batch_reader.rs",
  "                    let items = std::mem::take(&mut self.items);", "                    let mut items = std::mem::take(&mut self.items);\n                    items.reverse();")
B("C12-compaction-uses-first-keyspaces-strategy", "C12", "C12:R-C12.10", "src/compaction/worker.rs",
  "    let strategy = keyspace.config.compaction_strategy.clone();", """    let strategy = keyspace
        .supervisor
        .keyspaces
        .read()
        .expect("lock is poisoned")
        .values()
        .next()
        .map_or_else(|| keyspace.config.compaction_strategy.clone(), |k| k.config.compaction_strategy.clone());""")

# ---- contexts refreshed after repairs 29-33
_override("C14-rotate-without-id-check", [(KS, """        if self.tree.active_memtable().id() != memtable_id {
            return Ok(false);
        }
""", """        let _ = memtable_id;
""")])
_override("C02-early-ack", [(KS, """        let (item_size, memtable_size) = self.tree.remove_weak(key, seqno);
""", """        if key.is_empty() {
            return Ok(());
        }

        let (item_size, memtable_size) = self.tree.remove_weak(key, seqno);
""")])
_override("C05-range-seqno-max", [(KS, "let iter = self.tree.range(range, nonce.instant, None);", "let iter = self.tree.range(range, lsm_tree::SeqNo::MAX, None);")])
_override("C05-prefix-seqno-max", [(KS, "let iter = self.tree.prefix(prefix, nonce.instant, None);", "let iter = self.tree.prefix(prefix, lsm_tree::SeqNo::MAX, None);")])
_override("F08-C06-first_key_value-at-max", [(KS, "        self.tree.first_key_value(nonce.instant, None)", "        self.tree.first_key_value(lsm_tree::SeqNo::MAX, None)")])
_override("F08-C06-last_key_value-at-max", [(KS, "        self.tree.last_key_value(nonce.instant, None)", "        self.tree.last_key_value(lsm_tree::SeqNo::MAX, None)")])
_override("F08-C06-is_empty-at-max", [(KS, "        self.tree.is_empty(nonce.instant, None)", "        self.tree.is_empty(lsm_tree::SeqNo::MAX, None)")])
_override("F25-C17-populated-folder-reinitialised", [(DB, """                if !Self::is_interrupted_creation(&config.path)? {
                    return Err(crate::Error::InvalidVersion(None));
                }""", """                if !Self::is_interrupted_creation(&config.path)? {
                    log::warn!("version marker missing");
                }""")])

# ---- mutation-sweep survivors that break a property (tools/mutation_sweep.py; triaged by reading)
B("SW-C09-empty-batch-syncall-not-a-barrier", "C09", "C09:R-C09.8:batch::WriteBatch::commit", BATCH,
  "if let Some(mode @ (crate::PersistMode::SyncData | crate::PersistMode::SyncAll)) =", "if let Some(mode @ (crate::PersistMode::SyncData | crate::PersistMode::SyncData)) =")
B("SW-C09-empty-tx-syncall-not-a-barrier", "C09", "C09:R-C09.8:tx::write_tx::BaseTransaction::commit", "src/tx/write_tx.rs",
  "if let Some(mode @ (PersistMode::SyncData | PersistMode::SyncAll)) = self.durability {", "if let Some(mode @ (PersistMode::SyncData | PersistMode::SyncData)) = self.durability {")
B("SW-C14-batch-backpressure-under-keyspaces-lock", "C14", "C14:R-C14.3:batch::WriteBatch::commit:nothing-waits-under-the-keyspaces-lock", BATCH,
  "        drop(keyspaces);\n", "")
B("SW-C17-journals-only-count-with-keyspaces-folder", "C17", "C17:R-C17.6:db::Database::holds_database_files", DB,
  "            if is_journal || name == KEYSPACES_FOLDER || name == LOCK_FILE {", "            if is_journal && name == KEYSPACES_FOLDER || name == LOCK_FILE {")
B("SW-C17-everything-but-keyspaces-counts", "C17", "C17:R-C17.6:db::Database::holds_database_files", DB,
  "            if is_journal || name == KEYSPACES_FOLDER || name == LOCK_FILE {", "            if is_journal || name != KEYSPACES_FOLDER || name == LOCK_FILE {")
B("SW-C11-restore-only-when-journal-was-created", "C11", "C11:R-C11.1:db::Database::recover:restores-run-on-a-normal-reopen", DB,
  "            if !journal_recovery.was_active_created {", "            if journal_recovery.was_active_created {")
B("SW-C02-manual-journal-persist-by-default", "C02", "C02:R-C02.9:db_config::Config::new:config-default-manual_journal_persist", "src/db_config.rs",
  "            manual_journal_persist: false,", "            manual_journal_persist: true,")
B("SW-C02-clean-path-on-drop-by-default", "C02", "C02:R-C02.9:db_config::Config::new:config-default-clean_path_on_drop", "src/db_config.rs",
  "            clean_path_on_drop: false,", "            clean_path_on_drop: true,")
B("SW-C14-worker-exits-when-no-flush-task", "C14", "C14:R-C14.9:worker_pool::worker_tick", WP,
  """            let Some(task) = ctx.supervisor.flush_manager.dequeue() else {
                return Ok(false);
            };""", """            let Some(task) = ctx.supervisor.flush_manager.dequeue() else {
                return Ok(true);
            };""")
B("SW-C14-worker-exits-after-any-message", "C14", "C14:R-C14.9:worker_pool::worker_tick", WP,
  """            run_compaction(&keyspace, &ctx.supervisor.snapshot_tracker, &ctx.stats)?;
        }
    }

    Ok(false)""", """            run_compaction(&keyspace, &ctx.supervisor.snapshot_tracker, &ctx.stats)?;
        }
    }

    Ok(true)""")
B("SW-C14-every-worker-bounces-compactions", "C14", "C14:R-C14.10:worker_pool::worker_tick", WP,
  "            if ctx.pool_size > 1 && ctx.worker_id == 0 {", "            if ctx.pool_size > 1 || ctx.worker_id == 0 {")
B("SW-C14-single-worker-bounces-its-compactions", "C14", "C14:R-C14.10:worker_pool::worker_tick", WP,
  "            if ctx.pool_size > 1 && ctx.worker_id == 0 {", "            if ctx.pool_size >= 1 && ctx.worker_id == 0 {")
E("EQ-compaction-bounce-nested-ifs", WP, """            if ctx.pool_size > 1 && ctx.worker_id == 0 {
                ctx.sender.send(WorkerMessage::Compact(keyspace)).ok();
                return Ok(false);
            }
""", """            if ctx.pool_size > 1 {
                if ctx.worker_id == 0 {
                    ctx.sender.send(WorkerMessage::Compact(keyspace)).ok();
                    return Ok(false);
                }
            }
""", props=["C14", "C17", "C13"])
B("SW-C17-journal-manager-clear-is-a-noop", "C17", "C17:R-C17.4:journal::manager::JournalManager::clear", "src/journal/manager.rs",
  "        self.items.clear();", "        let _ = &self.items;")
B("SW-C03-write-batch-shortcut-inverted", "C03", "C03:R-C03.1:journal::writer::Writer::write_batch:unframed-return", "src/journal/writer.rs",
  "        if batch_size == 0 {\n            return Ok(0);", "        if batch_size != 0 {\n            return Ok(0);")
B("SW-C16-config-key-without-keyspace-id", "C16", "C16:R-C16.8:meta_keyspace::encode_config_key", "src/meta_keyspace.rs",
  "        writer.write_u64::<BE>(keyspace_id).unwrap();", "        writer.write_u64::<BE>(0).unwrap();")
B("SW-C16-config-key-without-option-name", "C16", "C16:R-C16.8:meta_keyspace::encode_config_key", "src/meta_keyspace.rs",
  "        writer.write_all(name.as_bytes()).unwrap();", "        writer.write_all(&vec![0u8; name.len()]).unwrap();")
B("SW-C08-optimistic-helper-insert-writes-nothing", "C08", "C08:R-C08.10:tx::optimistic::keyspace::OptimisticTxKeyspace::insert", "src/tx/optimistic/keyspace.rs",
  "        tx.insert(self.inner(), key, value);", "        let _ = (&mut tx, key.into(), value.into());")
B("SW-C08-single-writer-helper-insert-never-commits", "C08", "C08:R-C08.10:tx::single_writer::keyspace::SingleWriterTxKeyspace::insert", "src/tx/single_writer/keyspace.rs",
  "        tx.insert(self, key, value);\n        tx.commit()?;", "        tx.insert(self, key, value);")
B("SW-C08-single-writer-tx-remove-writes-nothing", "C08", "C08:R-C08.10:tx::single_writer::write_tx::WriteTransaction::<'tx>::remove", "src/tx/single_writer/write_tx.rs",
  "        self.inner.remove(keyspace.inner(), key);", "        let _ = (keyspace.inner(), key.into());")
B("SW-C07-optimistic-helper-remove-writes-nothing", "C07", "C07:R-C07.12", "src/tx/optimistic/keyspace.rs",
  "        tx.remove(self.inner(), key);", "        let _ = (&mut tx, key.into());")
_TXW = "src/tx/write_tx.rs"
B("SW-C08-fetch-update-writes-only-unchanged-values", "C08", "C08:R-C08.6:tx::write_tx::BaseTransaction::fetch_update:writes-what", _TXW,
  """        if let Some(value) = updated {
            // NOTE: Skip insert if the value hasn't changed
            if prev.as_ref() != Some(&value) {""", """        if let Some(value) = updated {
            // NOTE: Skip insert if the value hasn't changed
            if prev.as_ref() == Some(&value) {""")
B("SW-C08-update-fetch-removes-only-absent-keys", "C08", "C08:R-C08.6:tx::write_tx::BaseTransaction::update_fetch:writes-what", _TXW,
  """                self.insert(keyspace, key, value);
            }
        } else if prev.is_some() {
            self.remove(keyspace, key);
        }

        Ok(updated)""", """                self.insert(keyspace, key, value);
            }
        } else if prev.is_none() {
            self.remove(keyspace, key);
        }

        Ok(updated)""")
E("EQ-fetch-update-compares-with-eq", _TXW, """        if let Some(value) = updated {
            // NOTE: Skip insert if the value hasn't changed
            if prev.as_ref() != Some(&value) {
                self.insert(keyspace, key, value);
            }
        } else if prev.is_some() {
            self.remove(keyspace, key);
        }

        Ok(prev)""", """        if let Some(value) = updated {
            // NOTE: Skip insert if the value hasn't changed
            if !(prev.as_ref() == Some(&value)) {
                self.insert(keyspace, key, value);
            }
        } else if !prev.is_none() {
            self.remove(keyspace, key);
        }

        Ok(prev)""", props=["C08", "C07"])

# ---- discipline rules (rules/discipline.py): error swallowing, early loop exits, element-dropping adaptors
B("SW-C08-tx-commit-ignores-batch-commit-error", "C08", "C08:R-C08.11:tx::write_tx::BaseTransaction::commit", _TXW,
  "        batch.commit()?;", "        batch.commit().ok();")
B("SW-C13-tx-commit-ignores-batch-commit-error", "C13", "C13:R-C13.10:tx::write_tx::BaseTransaction::commit", _TXW,
  "        batch.commit()?;", "        batch.commit().ok();")
B("SW-C09-empty-batch-barrier-error-swallowed", "C09", "C09:R-C09.10:batch::WriteBatch::commit", BATCH,
  "                self.db.persist(mode)?;", "                self.db.persist(mode).ok();")
B("SW-C04-recover-keyspaces-error-swallowed", "C04", "C04:R-C04.10:db::Database::recover", DB,
  "        recover_keyspaces(&db, &meta_keyspace)?;", "        recover_keyspaces(&db, &meta_keyspace).ok();")
B("SW-C03-truncate-to-sync-error-swallowed", "C03", "C03:R-C03.14:journal::batch_reader::JournalBatchReader::truncate_to", "src/journal/batch_reader.rs",
  "        file.sync_all()?;", "        file.sync_all().ok();")
B("SW-C17-marker-sync-error-swallowed", "C17", "C17:R-C17.8:db::Database::create_new", DB,
  "        marker.sync_all()?;", "        marker.sync_all().ok();")
B("SW-C04-replay-stops-at-first-unknown-keyspace", "C04", "C04:R-C04.11:db::Database::recover", DB,
  """                        let Some(keyspace) = keyspaces.get(&keyspace_name) else {
                            continue;
                        };""", """                        let Some(keyspace) = keyspaces.get(&keyspace_name) else {
                            break;
                        };""", nth=0)
B("SW-C10-seqno-map-skips-a-keyspace", "C10", "C10:R-C10.9:supervisor::Supervisor::build_seqno_map", "src/supervisor.rs",
  "        for keyspace in keyspaces.values() {", "        for keyspace in keyspaces.values().skip(1) {")
B("SW-C11-restore-skips-a-keyspace", "C11", "C11:R-C11.6:db::Database::recover", DB,
  "                for keyspace in keyspaces.values() {\n                    let size = keyspace.tree.active_memtable().size();", "                for keyspace in keyspaces.values().skip(1) {\n                    let size = keyspace.tree.active_memtable().size();")
B("SW-C05-pullup-above-visible-seqno", "C05", "C05:R-C05.5:snapshot_tracker::SnapshotTracker::pullup:pullup-stays-below", "src/snapshot_tracker.rs",
  "                self.seqno.get().saturating_sub(1),", "                self.seqno.get().saturating_add(1),")
B("SW-C07-optimistic-fetch-update-returns-on-conflict", "C07", "C07:R-C07.12", "src/tx/optimistic/keyspace.rs",
  "            let prev = tx.fetch_update(self.inner(), key.clone(), &mut f)?;\n            if tx.commit()?.is_ok() {", "            let prev = tx.fetch_update(self.inner(), key.clone(), &mut f)?;\n            if tx.commit()?.is_err() {")
E("EQ-recover-keyspaces-error-matched", DB, "        recover_keyspaces(&db, &meta_keyspace)?;", """        if let Err(e) = recover_keyspaces(&db, &meta_keyspace) {
            return Err(e);
        }""", props=["C04", "C02", "C13", "C12", "C17"])
E("EQ-replay-skip-as-if-let", DB, """                        let Some(keyspace) = keyspaces.get(&keyspace_name) else {
                            continue;
                        };""", """                        let keyspace = match keyspaces.get(&keyspace_name) {
                            Some(keyspace) => keyspace,
                            None => continue,
                        };""", props=["C04", "C02", "C12", "C11", "C03"], nth=0)

# ---- repair 34 (resumable first creation) reverted / broken
B("F34-C02-marker-created-under-its-final-name", "C02", "C02:R-C02.10:db::Database::create_new:version-marker-becomes-visible-only-when-complete", DB,
  """        let marker_tmp_path = config.path.join(VERSION_MARKER_TMP);
        let mut marker = std::fs::File::create(&marker_tmp_path)?;
        FormatVersion::V3.write_file_header(&mut marker)?;
        marker.sync_all()?;
        std::fs::rename(&marker_tmp_path, config.path.join(VERSION_MARKER))?;""", """        let _ = VERSION_MARKER_TMP;
        let mut marker = std::fs::File::create(config.path.join(VERSION_MARKER))?;
        FormatVersion::V3.write_file_header(&mut marker)?;
        marker.sync_all()?;""")
B("C02-marker-renamed-before-it-is-synced", "C02", "C02:R-C02.10:db::Database::create_new:version-marker-becomes-visible-only-when-complete", DB,
  """        marker.sync_all()?;
        std::fs::rename(&marker_tmp_path, config.path.join(VERSION_MARKER))?;""", """        std::fs::rename(&marker_tmp_path, config.path.join(VERSION_MARKER))?;
        marker.sync_all()?;""")
B("F34-C02-interrupted-creation-still-refused", "C02", "C02:R-C02.10:db::Database::create_or_recover:interrupted-creation-is-resumed", DB,
  """                if !Self::is_interrupted_creation(&config.path)? {
                    return Err(crate::Error::InvalidVersion(None));
                }""", """                let _ = Self::is_interrupted_creation(&config.path)?;
                return Err(crate::Error::InvalidVersion(None));""")
B("F34-C02-leftover-journal-not-removed", "C02", "C02:R-C02.10:db::Database::create_new:step-Journal::create_new", DB,
  """        if active_journal_path.try_exists()? && Self::is_interrupted_creation(&config.path)? {
            std::fs::remove_file(&active_journal_path)?;
        }
""", "")
B("C17-create-new-removes-any-existing-first-journal", "C17", "C17:R-C17.6:db::Database::create_new:create-new-removes-only", DB,
  "        if active_journal_path.try_exists()? && Self::is_interrupted_creation(&config.path)? {", "        if active_journal_path.try_exists()? {")
B("C17-nonempty-keyspaces-folder-counts-as-interrupted-creation", "C17", "C17:R-C17.6:db::Database::is_interrupted_creation", DB,
  """                if std::fs::read_dir(dirent.path())?.next().is_some() {
                    return Ok(false);
                }
                continue;""", """                continue;""")
B("C17-populated-folder-resumed-like-an-interrupted-creation", "C17", "C17:R-C17.6:db::Database::create_or_recover:populated-folder-without-marker", DB,
  """                if !Self::is_interrupted_creation(&config.path)? {
                    return Err(crate::Error::InvalidVersion(None));
                }""", """                if !Self::is_interrupted_creation(&config.path)? {
                    log::warn!("version marker missing");
                }""")
B("C17-create-new-does-not-look-for-an-existing-marker", "C17", "C17:R-C17.6:db::Database::create_new:existing-marker-refused", DB,
  """        if config.path.join(VERSION_MARKER).try_exists()? {
            return Err(std::io::Error::from(std::io::ErrorKind::AlreadyExists).into());
        }
""", "")

# ---- repairs 35 / 36 reverted
B("F35-C12-delete-keyspace-without-journal-maintenance", "C12", "C12:R-C12.13:db::Database::delete_keyspace", DB,
  """        let maintenance = self
            .supervisor
            .journal_manager
            .write()
            .expect("lock is poisoned")
            .maintenance();
""", """        let maintenance: crate::Result<()> = Ok(());
""")
B("F36-C12-batch-into-deleted-keyspace-accepted", "C12", "C12:R-C12.14:batch::WriteBatch::commit", BATCH,
  """        if self
            .data
            .iter()
            .any(|item| item.keyspace.is_deleted.load(std::sync::atomic::Ordering::Relaxed))
        {
            return Err(crate::Error::KeyspaceDeleted);
        }
""", "")

# ---- repair 37 reverted
B("F37-C03-wrapped-io-error-taken-for-torn-tail", "C03", "C03:R-C03.16:journal::entry::Entry::decode_from", "src/journal/entry.rs",
  """                let compression = CompressionType::decode_from(reader).map_err(|e| match e {
                    lsm_tree::Error::Io(e) => crate::Error::Io(e),
                    e => e.into(),
                })?;""", """                let compression = CompressionType::decode_from(reader)?;""")

# ---- repairs 38-41 reverted
B("F38-C14-write-halt-ignores-deleted-keyspace", "C14", "C14:R-C14.7:keyspace::Keyspace::check_write_halt:stall-loop-ends-when-the-keyspace-is-deleted", KS,
  """            if self.is_deleted.load(std::sync::atomic::Ordering::Acquire) {
                return;
            }

            // NOTE: Ask for the compaction""", """            // NOTE: Ask for the compaction""")
B("F38-C14-sealed-wait-ignores-dead-workers", "C14", "C14:R-C14.7:keyspace::Keyspace::local_backpressure:stall-loop-ends-when-the-workers-are-gone", KS,
  """            && !self.is_deleted.load(std::sync::atomic::Ordering::Acquire)
            && self.worker_messager.upgrade().is_some()
        {""", """            && !self.is_deleted.load(std::sync::atomic::Ordering::Acquire)
        {""")
B("F39-C17-recover-queues-before-workers-start", "C17", "C17:R-C17.10:db::Database::recover", DB,
  """        db.worker_pool.start(
            db.config.worker_threads,
            &db.supervisor,
            &db.stats,
            &PoisonDart::new(db.is_poisoned.clone()),
            &db.active_thread_counter,
        )?;

        for keyspace in to_flush {""", """        for keyspace in to_flush.clone() {
            db.supervisor
                .flush_manager
                .enqueue(Arc::new(crate::flush::Task { keyspace }));
        }

        db.worker_pool.start(
            db.config.worker_threads,
            &db.supervisor,
            &db.stats,
            &PoisonDart::new(db.is_poisoned.clone()),
            &db.active_thread_counter,
        )?;

        for keyspace in to_flush {""")
B("F40-C17-database-drop-removes-temporary-folder-itself", "C17", "C17:R-C17.11:<db::DatabaseInner as std::ops::Drop>::drop", DB,
  """            self.lock_file
                .remove_folder_on_release(self.config.path.clone());""", """            if let Err(err) = std::fs::remove_dir_all(&self.config.path) {
                log::warn!("Failed to clean up path: {} - {err}", self.config.path.display());
            }""")
B("C17-temporary-folder-removed-after-unlock", "C17", "C17:R-C17.11:<locked_file::LockedFileGuardInner as std::ops::Drop>::drop", "src/locked_file.rs",
  """        if let Some(folder) = self.1.lock().ok().and_then(|mut x| x.take()) {
            if let Err(e) = std::fs::remove_dir_all(&folder) {
                log::warn!("Failed to clean up path: {} - {e}", folder.display());
            }
        }

        log::debug!("Unlocking database lock");

        self.0
            .unlock()
            .inspect_err(|e| {
                log::warn!("Failed to unlock database lock: {e:?}");
            })
            .ok();""", """        log::debug!("Unlocking database lock");

        self.0
            .unlock()
            .inspect_err(|e| {
                log::warn!("Failed to unlock database lock: {e:?}");
            })
            .ok();

        if let Some(folder) = self.1.lock().ok().and_then(|mut x| x.take()) {
            if let Err(e) = std::fs::remove_dir_all(&folder) {
                log::warn!("Failed to clean up path: {} - {e}", folder.display());
            }
        }""")
B("F41-C17-drop-does-not-join-workers", "C17", "C17:R-C17.12:<db::DatabaseInner as std::ops::Drop>::drop", DB,
  "        self.worker_pool.join();\n", "")

# ---- contexts refreshed after repairs 34-41
_override("S10-C17-lock-after-journal-creation", [(DB, """        let lock_file = LockedFileGuard::create_new(&config.path.join(LOCK_FILE))?;

""", ""), (DB, """        let journal = Arc::new(journal);

        // NOTE: Lastly, fsync version marker""", """        let journal = Arc::new(journal);

        let lock_file = LockedFileGuard::create_new(&config.path.join(LOCK_FILE))?;

        // NOTE: Lastly, fsync version marker""")])
_override("C02-workers-before-replay", [(DB, """        // Recover keyspaces
        recover_keyspaces(&db, &meta_keyspace)?;
""", """        db.worker_pool.start(
            db.config.worker_threads,
            &db.supervisor,
            &db.stats,
            &PoisonDart::new(db.is_poisoned.clone()),
            &db.active_thread_counter,
        )?;

        // Recover keyspaces
        recover_keyspaces(&db, &meta_keyspace)?;
"""), (DB, """        db.worker_pool.start(
            db.config.worker_threads,
            &db.supervisor,
            &db.stats,
            &PoisonDart::new(db.is_poisoned.clone()),
            &db.active_thread_counter,
        )?;

        for keyspace in to_flush {""", """        for keyspace in to_flush {""")])
_HALT2 = """            let Some(sender) = self.worker_messager.upgrade() else {
                // NOTE: The database (and its workers) is gone, only this handle is left
                return;
            };
            sender.try_send(WorkerMessage::Compact(self.clone())).ok();
"""
_override("F32-C14-write-halt-only-sleeps", [(KS, _HALT2, """            if self.worker_messager.upgrade().is_none() {
                return;
            }
""")])
_override("C14-write-halt-nudges-once-before-the-loop", [(KS, _HALT2, """            if self.worker_messager.upgrade().is_none() {
                return;
            }
"""), (KS, """        while self.tree.l0_run_count() >= 30 {
            // NOTE: A deleted keyspace is not compacted anymore""", """        if let Some(sender) = self.worker_messager.upgrade() {
            sender.try_send(WorkerMessage::Compact(self.clone())).ok();
        }
        while self.tree.l0_run_count() >= 30 {
            // NOTE: A deleted keyspace is not compacted anymore""")])
_override("EQ-write-halt-sender-upgraded-once", [(KS, _HALT2, """            match self.worker_messager.upgrade() {
                Some(sender) => {
                    let _ = sender.try_send(WorkerMessage::Compact(self.clone()));
                }
                None => return,
            }
""")])

# ---- third sweep batch (files no seed had touched)
_CMF = "src/tx/optimistic/conflict_manager.rs"
B("SW-C07-push-read-drops-reads-of-known-keyspace", "C07", "C07:R-C07.14:tx::optimistic::conflict_manager::ConflictManager::push_read", _CMF,
  "            tbl.push(read);", "            let _ = (tbl, read);")
B("SW-C07-mark-conflict-drops-first-key-of-keyspace", "C07", "C07:R-C07.14:tx::optimistic::conflict_manager::ConflictManager::mark_conflict", _CMF,
  "            lock.entry(keyspace_id).or_default().insert(key);", "            lock.entry(keyspace_id).or_default();\n            let _ = key;")
B("SW-C07-mark-read-records-nothing", "C07", "C07:R-C07.14:tx::optimistic::conflict_manager::ConflictManager::mark_read", _CMF,
  "        self.push_read(keyspace_id, Read::Single(key));", "        let _ = (keyspace_id, key);")
# (a half-open range recorded as Read::All — `&&` -> `||` — validates a SUPERSET of what was read: spurious conflicts, still serializable)
E("EQ-C07-half-open-range-recorded-as-all", _CMF,
  "        let read = if start == Bound::Unbounded && end == Bound::Unbounded {", "        let read = if start == Bound::Unbounded || end == Bound::Unbounded {", props=["C07"])
B("SW-C07-range-hit-means-no-conflict", "C07", "C07:R-C07.15:tx::optimistic::conflict_manager::ConflictManager::has_conflict", _CMF,
  """                                    .range::<Slice, _>((Bound::Included(start), Bound::Unbounded))
                                    .next()
                                    .is_some()""", """                                    .range::<Slice, _>((Bound::Included(start), Bound::Unbounded))
                                    .next()
                                    .is_none()""")
B("SW-C07-read-all-conflicts-only-with-empty-write-set", "C07", "C07:R-C07.15:tx::optimistic::conflict_manager::ConflictManager::has_conflict", _CMF,
  "                            if !other_conflict_keys.is_empty() {", "                            if other_conflict_keys.is_empty() {")
B("SW-C07-excluded-start-recorded-as-included", "C07", "C07:R-C07.14:tx::optimistic::conflict_manager::ConflictManager::mark_range", _CMF,
  """        let end = match range.end_bound() {
            Bound::Included(k) => Bound::Included(k.clone()),
            Bound::Excluded(k) => Bound::Excluded(k.clone()),""", """        let end = match range.end_bound() {
            Bound::Included(k) => Bound::Excluded(k.clone()),
            Bound::Excluded(k) => Bound::Excluded(k.clone()),""")
B("SW-C16-compression-policy-encoded-back-to-front", "C16", "C16:R-C16.3", "src/keyspace/config/compression.rs",
  "        for item in self.iter() {", "        for item in self.iter().rev() {")
B("SW-C16-decoded-bloom-policy-not-pushed", "C16", "C16:R-C16.3", "src/keyspace/config/filter.rs",
  "                    v.push(policy);", "                    let _ = policy;")
B("SW-C16-pinning-flag-decoded-inverted", "C16", "C16:R-C16.3", "src/keyspace/config/pinning.rs",
  "            v.push(b == 1);", "            v.push(b != 1);")
B("SW-C02-batch-item-accepts-empty-key", "C02", "C02:R-C02.8:batch::item::Item::new", "src/batch/item.rs",
  "        assert!(!k.is_empty());", "        let _ = k.is_empty();")
E("EQ-pinning-flag-decoded-as-nonzero", "src/keyspace/config/pinning.rs", "            v.push(b == 1);", "            v.push(b != 0);", props=["C16"])
B("SW-C01-readable-is-empty-inverted", "C01", "C01:R-C01.9:readable::Readable::is_empty", "src/readable.rs",
  "            .transpose()?\n            .is_none())", "            .transpose()?\n            .is_some())")
B("SW-C01-readable-len-counts-two", "C01", "C01:R-C01.9:readable::Readable::len", "src/readable.rs",
  "            let _ = guard.key()?;\n            count += 1;", "            let _ = guard.key()?;\n            count += 2;")

# ---- repair 42 reverted; round-6 rules
B("F42-C17-drop-ignores-a-full-queue", "C17", "C17:R-C17.4:<db::DatabaseInner as std::ops::Drop>::drop:wait-loop-makes-room", DB,
  """            if self
                .worker_pool
                .sender
                .try_send(WorkerMessage::Close)
                .is_err()
            {
                // NOTE: The queue is full. A worker may be blocked sending into it itself
                // (a re-queued compaction, a flush wake-up) and would never get to see a close message:
                // make room, everything in the queue is obsolete by now
                let _ = self.worker_pool.rx.drain().count();
            }
""", """            let _ = self.worker_pool.sender.try_send(WorkerMessage::Close);
""")
B2("C17-keyspace-lock-guard-declared-first", "C17", "C17:R-C17.13:keyspace::KeyspaceInner", [
    (KS, """    pub(crate) is_poisoned: PoisonSignal,

    /// LSM-tree wrapper""", """    pub(crate) is_poisoned: PoisonSignal,

    #[expect(unused)]
    lock_file: LockedFileGuard,

    /// LSM-tree wrapper"""),
    (KS, """    pub(crate) worker_messager: flume::WeakSender<WorkerMessage>,

    #[expect(unused)]
    lock_file: LockedFileGuard,
}""", """    pub(crate) worker_messager: flume::WeakSender<WorkerMessage>,
}"""),
])
B("C08-commit-skips-tombstones-of-keys-absent-at-the-snapshot", "C08", "C08:R-C08.4:tx::write_tx::BaseTransaction::commit:commit-does-not-consult-the-tree", _TXW,
  """                batch.data.push(Item::new(
                    keyspace.clone(),""", """                if item.is_tombstone() && !keyspace.tree.contains_key(&item.key.user_key, self.nonce.instant)? {
                    continue;
                }

                batch.data.push(Item::new(
                    keyspace.clone(),""")
B("C06-batch-applied-without-the-keyspaces-lock", "C06", "C06:R-C06.11:batch::WriteBatch::commit", BATCH,
  """        let keyspaces = self
            .db
            .supervisor
            .keyspaces
            .read()
            .expect("lock is poisoned");
""", """        let keyspaces = ();
""")

# ---- R-C01.11 write builders
_ITEM = "src/batch/item.rs"
B("C01-batch-remove-queues-weak", "C01", "C01:R-C01.11:batch::WriteBatch::remove:queues-one-item-of-its-own-kind", BATCH,
  """            .push(Item::new(p.clone(), key, vec![], ValueType::Tombstone));""",
  """            .push(Item::new(p.clone(), key, vec![], ValueType::WeakTombstone));""")
B("C01-batch-remove-weak-queues-strong", "C01", "C01:R-C01.11:batch::WriteBatch::remove_weak:queues-one-item-of-its-own-kind", BATCH,
  """            .push(Item::new(p.clone(), key, vec![], ValueType::WeakTombstone));""",
  """            .push(Item::new(p.clone(), key, vec![], ValueType::Tombstone));""")
B("C01-batch-insert-dedupes-last", "C01", "C01:R-C01.11:batch::WriteBatch::insert:queues-one-item-of-its-own-kind", BATCH,
  """        self.data
            .push(Item::new(p.clone(), key, value, ValueType::Value));""",
  """        let item = Item::new(p.clone(), key, value, ValueType::Value);
        // NOTE: Collapse repeated writes of the same key
        if self.data.last().is_some_and(|l| l.key == item.key) {
            self.data.pop();
        }
        self.data.push(item);""")
B("C01-item-new-swaps-key-value", "C01", "C01:R-C01.11:batch::item::Item::new:components-stay-apart", _ITEM,
  """            key: k,
            value: v,
            value_type,""",
  """            key: v.clone().into(),
            value: k.clone().into(),
            value_type,""")
B("C01-ingestion-tombstone-is-weak", "C01", "C01:R-C01.11:ingestion::Ingestion::<'a>::write_tombstone:forwards-to-the-like-named-ingestion-op", _ING,
  """        self.inner.write_tombstone(key).map_err(Into::into)""",
  """        self.inner.write_weak_tombstone(key).map_err(Into::into)""")
B("C01-overlay-filter-inverted", "C01", "C01:R-C01.11:tx::write_tx::ignore_tombstone_value:none-exactly-for-a-tombstone", _TXW,
  """    if item.is_tombstone() {
        None
    } else {
        Some(item)
    }""",
  """    if item.is_tombstone() {
        Some(item)
    } else {
        None
    }""")
E("EQ-C01-batch-insert-local", BATCH,
  """        self.data
            .push(Item::new(p.clone(), key, value, ValueType::Value));""",
  """        let keyspace = p.clone();
        let item = Item::new(keyspace, key, value, ValueType::Value);
        self.data.push(item);""", props=["C01", "C08", "C02"])
E("EQ-C01-overlay-filter-match", _TXW,
  """    if item.is_tombstone() {
        None
    } else {
        Some(item)
    }""",
  """    if !item.is_tombstone() {
        return Some(item);
    }
    None""", props=["C01", "C08"])

# ---- transactional database wrappers (rules/wrappers.py)
_STXM = "src/tx/single_writer/mod.rs"
_OTXM = "src/tx/optimistic/mod.rs"
B("C16-tx-keyspace-ignores-options", "C16", "C16:R-C16.10:tx::single_writer::TxDatabase::keyspace:forwards-own-arguments-to-Database-keyspace", _STXM,
  """        let keyspace = self.inner.keyspace(name, create_options)?;""",
  """        // NOTE: Transactional keyspaces always use the defaults
        let _ = create_options;
        let keyspace = self.inner.keyspace(name, KeyspaceCreateOptions::default)?;""")
B("C18-optimistic-keyspace-strips-filter", "C18", "C18:R-C18.6:tx::optimistic::OptimisticTxDatabase::keyspace:forwards-own-arguments-to-Database-keyspace", _OTXM,
  """        let keyspace = self.inner.keyspace(name, create_options)?;""",
  """        let keyspace = self
            .inner
            .keyspace(name, || {
                let mut opts = create_options();
                opts.compaction_filter_factory = None;
                opts
            })?;""")
B("C06-read-tx-own-nonce", "C06", "C06:R-C06.12:tx::optimistic::OptimisticTxDatabase::read_tx:forwards-own-arguments-to-Database-snapshot", _OTXM,
  """    pub fn read_tx(&self) -> Snapshot {
        self.inner.snapshot()
    }""",
  """    pub fn read_tx(&self) -> Snapshot {
        Snapshot::new(crate::snapshot_nonce::SnapshotNonce::new(
            self.inner.seqno(),
            self.inner.supervisor.snapshot_tracker.clone(),
        ))
    }""")
E("EQ-C16-tx-keyspace-local", _STXM,
  """        let keyspace = self.inner.keyspace(name, create_options)?;""",
  """        let db = &self.inner;
        let keyspace = db.keyspace(name, create_options)?;""", props=["C16", "C18", "C12"])

# ---- R-C17.14 version byte tables
_VER = "src/version.rs"
B("C17-version-writer-table-slip", "C17", "C17:R-C17.14:version::<impl std::convert::From<version::FormatVersion> for u8>::from:byte-tables-are-inverse", _VER,
  """            FormatVersion::V3 => 3,""", """            FormatVersion::V3 => 4,""")
B("C17-version-reader-accepts-foreign-byte", "C17", "C17:R-C17.14:version::<impl std::convert::From<version::FormatVersion> for u8>::from:byte-tables-are-inverse", _VER,
  """            3 => Ok(Self::V3),""", """            3 | 4 => Ok(Self::V3),""")
B("C17-header-writes-discriminant", "C17", "C17:R-C17.14:version::FormatVersion::write_file_header:header-is-magic-then-table-byte", _VER,
  """        writer.write_u8(u8::from(self))?;""", """        writer.write_u8(self as u8)?;""")
B("C17-new-database-stamped-v2", "C17", "C17:R-C17.14:db::Database::create_new:new-database-is-stamped-with-the-accepted-version", DB,
  """        FormatVersion::V3.write_file_header(&mut marker)?;""", """        FormatVersion::V2.write_file_header(&mut marker)?;""")
E("EQ-C17-version-table-into", _VER,
  """        writer.write_u8(u8::from(self))?;""", """        let byte: u8 = self.into();
        writer.write_u8(byte)?;""", props=["C17", "C09"])

# F06 refreshed after repair 42 (the wait loop now looks at try_send's answer)
_override("F06-C17-drop-blocking-send", [(DB,
  """                .try_send(WorkerMessage::Close)
                .is_err()
            {""",
  """                .send(WorkerMessage::Close)
                .is_err()
            {""")])

# ---- round-7 rules: equivalence guards (the breaking side is replayed from seeded/S88.. S105)
E("EQ-C04-replay-binds-the-id-first", REC,
  """                let Some(keyspace_name) = db.meta_keyspace.resolve_id(item.keyspace_id)? else {
                    continue;
                };""",
  """                let record_keyspace_id = item.keyspace_id;
                let resolved = db.meta_keyspace.resolve_id(record_keyspace_id)?;
                let Some(keyspace_name) = resolved else {
                    continue;
                };""", props=["C04", "C12", "C15", "C01", "C02"])
E("EQ-C15-lz4-arm-with-a-debug-assert", ENTRY,
  """            let compressed = lz4_flex::compress(value);
            std::borrow::Cow::Owned(compressed)""",
  """            let compressed = lz4_flex::compress(value);
            debug_assert!(value.is_empty() || !compressed.is_empty());
            std::borrow::Cow::Owned(compressed)""", props=["C15", "C02", "C04"])
E("EQ-C17-second-name-assert-before-the-lock", DB,
  """        assert!(is_valid_keyspace_name(name));

        let keyspaces = self.supervisor.keyspaces.write().expect("lock is poisoned");""",
  """        assert!(is_valid_keyspace_name(name));
        assert!(name.len() <= 255, "keyspace names are at most 255 bytes long");

        let keyspaces = self.supervisor.keyspaces.write().expect("lock is poisoned");""", props=["C17", "C12", "C16"])
E("EQ-C01-is-empty-split", KS,
  """        let nonce = self.supervisor.snapshot_tracker.open();
        self.tree.is_empty(nonce.instant, None).map_err(Into::into)
    }""",
  """        let nonce = self.supervisor.snapshot_tracker.open();
        let answer = self.tree.is_empty(nonce.instant, None)?;
        Ok(answer)
    }""", props=["C01", "C14", "C06", "C05"])
B("C17-create-options-validated-under-lock", "C17", "C17:R-C17.15:db::Database::keyspace:no-assert-fires-under-the-keyspaces-write-lock", DB,
  """            let mut opts = create_options();""",
  """            let mut opts = create_options();
            assert!(opts.max_memtable_size > 0, "max_memtable_size may not be zero");""")

# ---- repair 43 reverted
B("F43-C17-thread-counter-raised-up-front", "C17", "C17:R-C17.4:worker_pool::WorkerPool::start:counter-counts-exactly-the-threads-that-run", WP,
  """        let thread_handles = (0..pool_size)
            .map(|i| {
                // NOTE: Counted per thread, not up front: if a spawn fails, the threads after it are never
                // created, and the database drop would wait for them forever
                thread_counter.fetch_add(1, Relaxed);
""",
  """        thread_counter.fetch_add(pool_size, Relaxed);

        let thread_handles = (0..pool_size)
            .map(|i| {
""")
B("C17-failed-spawn-not-given-back", "C17", "C17:R-C17.4:worker_pool::WorkerPool::start:counter-counts-exactly-the-threads-that-run", WP,
  """                    .inspect_err(|_| {
                        thread_counter.fetch_sub(1, Relaxed);
                    })""",
  """                    .inspect_err(|e| {
                        log::error!("Could not spawn worker thread: {e:?}");
                    })""")

# ---- sweep batch 4 (statement swaps, literal bumps): the survivors that mattered, as regression mutants
B("SWP-C05-close-releases-two", "C05", "C05:R-C05.11:snapshot_tracker::SnapshotTracker::close_raw:unregisters-exactly-one", TRACKER,
  "        self.data.alter(&instant, |_, v| v.saturating_sub(1));", "        self.data.alter(&instant, |_, v| v.saturating_sub(2));")
B("SWP-C05-first-registration-counts-two", "C05", "C05:R-C05.11:snapshot_tracker::SnapshotTracker::open:registers-exactly-one", TRACKER,
  """            .and_modify(|x| {
                *x += 1;
            })
            .or_insert(1);

        SnapshotNonce::new(seqno, self.clone())""",
  """            .and_modify(|x| {
                *x += 1;
            })
            .or_insert(2);

        SnapshotNonce::new(seqno, self.clone())""")
B("SWP-C05-clone-adds-two", "C05", "C05:R-C05.11:snapshot_tracker::SnapshotTracker::clone_snapshot:registers-exactly-one", TRACKER,
  """            .and_modify(|x| {
                *x += 1;
            })
            .or_insert(1);

        SnapshotNonce::new(nonce.instant, self.clone())""",
  """            .and_modify(|x| {
                *x += 2;
            })
            .or_insert(1);

        SnapshotNonce::new(nonce.instant, self.clone())""")
B("SWP-C01-len-starts-at-one", "C01", "C01:R-C01.9:readable::Readable::len:len-starts-at-zero", "src/readable.rs",
  "        let mut count = 0;", "        let mut count = 1;")
B("SWP-C03-reader-starts-at-one", "C03", "C03:R-C03.19:journal::reader::JournalReader::new:starts-with-nothing-verified", "src/journal/reader.rs",
  "            last_valid_pos: 0,", "            last_valid_pos: 1,")
B("SWP-C03-batch-reader-starts-owing-an-item", "C03", "C03:R-C03.19:journal::batch_reader::JournalBatchReader::new:starts-with-nothing-verified", BRD,
  "            batch_counter: 0,", "            batch_counter: 1,")
B("SWP-C17-guard-subtracts-two", "C17", "C17:R-C17.4:<worker_pool::ThreadCounterGuard as std::ops::Drop>::drop:a-leaving-worker-takes-back-exactly-one", WP,
  "        self.0.fetch_sub(1, std::sync::atomic::Ordering::Relaxed);", "        self.0.fetch_sub(2, std::sync::atomic::Ordering::Relaxed);")
B("SWP-C09-root-folder-synced-first", "C09", "C09:R-C09.4:db::Database::create_new:marker-folder-is-synced-last", DB,
  """        fsync_directory(&keyspaces_folder_path)?;
        fsync_directory(&config.path)?;""",
  """        fsync_directory(&config.path)?;
        fsync_directory(&keyspaces_folder_path)?;""")
B("SWP-C15-start-marker-appended-to-stale-buffer", "C15", "C15:R-C15.15:journal::writer::Writer::write_raw:write_start", WRITER,
  """        let mut byte_count = 0;

        self.buf.clear();
        byte_count += self.write_start(1, seqno)?;
        self.buf.clear();

        serialize_marker_item(""",
  """        let mut byte_count = 0;

        byte_count += self.write_start(1, seqno)?;
        self.buf.clear();
        self.buf.clear();

        serialize_marker_item(""")
B("SWP-C15-item-appended-to-start-marker", "C15", "C15:R-C15.15:journal::writer::Writer::write_clear:write_all", WRITER,
  """        byte_count += self.write_start(1, seqno)?;
        self.buf.clear();

        Entry::Clear { keyspace_id }.encode_into(&mut self.buf)?;""",
  """        byte_count += self.write_start(1, seqno)?;

        Entry::Clear { keyspace_id }.encode_into(&mut self.buf)?;""")
E("EQ-C15-clear-and-finish-commute", WRITER,
  """        self.buf.clear();
        let checksum = hasher.finish();
        byte_count += self.write_end(checksum)?;

        Ok(byte_count)
    }

    pub(crate) fn write_clear(""",
  """        let checksum = hasher.finish();
        self.buf.clear();
        byte_count += self.write_end(checksum)?;

        Ok(byte_count)
    }

    pub(crate) fn write_clear(""", props=["C15", "C03", "C02", "C13"])
E("EQ-C15-hash-before-write", WRITER,
  """        Entry::Clear { keyspace_id }.encode_into(&mut self.buf)?;
        self.file.write_all(&self.buf)?;
        hasher.update(&self.buf);""",
  """        Entry::Clear { keyspace_id }.encode_into(&mut self.buf)?;
        hasher.update(&self.buf);
        self.file.write_all(&self.buf)?;""", props=["C15", "C03", "C02", "C13"])
B("SWP-C02-one-item-batch-taken-for-empty", "C02", "C02:R-C02.19:batch::WriteBatch::is_empty:empty-means-no-items", BATCH,
  "        self.len() == 0", "        self.len() == 1")
B("SWP-C08-commit-shortcut-inverted", "C08", "C08:R-C08.14:batch::WriteBatch::commit:nothing-to-do-only-for-an-empty-batch", BATCH,
  "        if self.is_empty() {\n            // NOTE: Even without items", "        if !self.is_empty() {\n            // NOTE: Even without items")
E("EQ-C02-is-empty-through-the-vec", BATCH,
  "        self.len() == 0", "        self.data.is_empty()", props=["C02", "C08", "C03"])
B("SWP-C14-bounce-returns-before-requeue", "C14", "C14:R-C14.10:worker_pool::worker_tick:a-bounced-compact-message-is-queued-again", WP,
  """                ctx.sender.send(WorkerMessage::Compact(keyspace)).ok();
                return Ok(false);""",
  """                if ctx.sender.is_full() {
                    return Ok(false);
                }
                ctx.sender.send(WorkerMessage::Compact(keyspace)).ok();
                return Ok(false);""")

# ---- repair 44; the drop context it changed
_override("C17-drop-forgets-keyspaces-clear", [(DB,
  """        self.supervisor
            .keyspaces
            .write()
            .unwrap_or_else(std::sync::PoisonError::into_inner)
            .clear();
        self.supervisor
            .journal_manager""",
  """        self.supervisor
            .journal_manager""")])
B("F44-C17-drop-expects-the-keyspaces-lock", "C17", "C17:R-C17.16:<db::DatabaseInner as std::ops::Drop>::drop:drop-does-not-panic-on-a-poisoned-lock", DB,
  """            .keyspaces
            .write()
            .unwrap_or_else(std::sync::PoisonError::into_inner)
            .clear();""",
  """            .keyspaces
            .write()
            .expect("lock is poisoned")
            .clear();""")
E("EQ-C17-drop-matches-on-the-lock-result", DB,
  """        self.supervisor
            .journal_manager
            .write()
            .unwrap_or_else(std::sync::PoisonError::into_inner)
            .clear();""",
  """        match self.supervisor.journal_manager.write() {
            Ok(mut manager) => manager.clear(),
            Err(poisoned) => poisoned.into_inner().clear(),
        }""", props=["C17", "C10", "C13"])
